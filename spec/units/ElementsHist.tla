---------------------------- MODULE ElementsHist ----------------------------
(* C20, mode H: "element data are self-consistent" over every HISTORY of calls on
   one tools::Elements object.  The object is a bundle of lookup tables; every public
   call is a pure query, so

     HistoryIndependent : the answer to every call equals the answer a FRESH object
                          gives to the same call, after any history - in particular a
                          failed lookup fails again the same way, and
     NoTrace            : no call (successful or failed) changes any table.

   State: tabs = for every table the set of names that have an entry (ghost `seen` =
   names queried so far), h = history of [call, expected answer].  One action per
   public lookup of elements.h:

     table lookups (throw on a miss)  getMass getNucCrg getEleNum getEleFull getEleShort
                                      getVdWChelpG getVdWMK getPolarizability getEleName
     membership                       isEleShort (reads EleFull) isEleFull (reads EleShort)
                                      isElement (both)
     reverse lookup by mass           getEleShortClosestInMass(m, tol)
                                      isMassAssociatedWithElement(m, tol)

   Names: Known (elements present in every table) and Unknown (non-elements such as a
   united-atom bead type "CH3"); getEleName is keyed by number, its unknown key is a
   number.  Masses are symbolic: [base, k] = mass(base) + k * tol/2 with base a known
   element, "zero" (0 and tol/2: the "tiny" masses) or "mid" (half way between two
   elements): |k| < 2 is inside the tolerance of base, |k| > 2 outside, |k| = 2 is the
   boundary whose outcome is decided by floating-point rounding (spec: either).

   The constant InsertOnMiss models the classic slip of a lookup written with
   std::map::operator[] : a miss inserts a default entry (mass 0, empty string) before
   the code notices.  With InsertOnMiss = FALSE the invariants hold; with TRUE TLC
   shows the counterexample (MCElementsHistBug.cfg, negative control): after a failed
   getMass("CH3") the reverse lookup of a tiny mass returns "CH3".               *)
EXTENDS Integers, Sequences, FiniteSets, TLC, Json

CONSTANTS Known, KnownFull, Unknown, Calls, Depth, InsertOnMiss, Emit

VARIABLES tabs, seen, h
vars == <<tabs, seen, h>>

Tables == {"Mass", "NucCrg", "EleNum", "EleFull", "EleShort", "VdWChelpG", "VdWMK", "Polar", "EleName", "CovRad"}
\* EleShort is keyed by FULL names ("CARBON": KnownFull), every other table by symbol / number (Known)
Tabs0 == [t \in Tables |-> IF t = "EleShort" THEN KnownFull ELSE Known]

\* which table a lookup reads (and, with InsertOnMiss, pollutes)
TableOf == [getMass |-> "Mass", getNucCrg |-> "NucCrg", getEleNum |-> "EleNum", getEleFull |-> "EleFull",
            getEleShort |-> "EleShort", getVdWChelpG |-> "VdWChelpG", getVdWMK |-> "VdWMK",
            getPolarizability |-> "Polar", getEleName |-> "EleName",
            \* getCovRad(name, unit): asked for KNOWN names only (a miss is undefined behaviour in the code);
            \* an unknown unit is rejected after the lookup
            getCovRadAng |-> "CovRad", getCovRadBohr |-> "CovRad", getCovRadNm |-> "CovRad",
            getCovRadBadUnit |-> "CovRad"]
Lookups == DOMAIN TableOf
MassCalls == {"getEleShortClosestInMass", "isMassAssociatedWithElement"}

Abs(x) == IF x < 0 THEN 0 - x ELSE x
\* a non-element entry of the mass table has the default mass 0
Polluted(tb) == tb["Mass"] \ Known

\* the answer class of call c on an object whose tables are tb
Answer(tb, c) ==
  CASE c.m = "getCovRadBadUnit" -> "throw"
    [] c.m \in Lookups -> IF c.n \in tb[TableOf[c.m]]
                          THEN (IF c.n \in Known \cup KnownFull THEN "found" ELSE "default")  \* a polluted entry answers
                          ELSE "throw"
    [] c.m = "isEleShort" -> IF c.n \in tb["EleFull"] THEN "true" ELSE "false"
    [] c.m = "isEleFull" -> IF c.n \in tb["EleShort"] THEN "true" ELSE "false"
    [] c.m = "isElement" -> IF c.n \in tb["EleFull"] \cup tb["EleShort"] THEN "true" ELSE "false"
    [] c.m \in MassCalls ->
         LET hit == CASE c.n = "zero" -> IF Polluted(tb) # {} /\ Abs(c.k) < 2 THEN "nonelement"
                                         ELSE IF Polluted(tb) # {} /\ Abs(c.k) = 2 THEN "either"
                                         ELSE "none"
                      [] c.n = "mid" -> "none"
                      [] OTHER -> IF Abs(c.k) < 2 THEN "element" ELSE IF Abs(c.k) = 2 THEN "either" ELSE "none"
         IN IF c.m = "isMassAssociatedWithElement"
            THEN (CASE hit = "none" -> "false" [] hit = "either" -> "either" [] OTHER -> "true")
            ELSE (CASE hit = "none" -> "throw" [] hit = "either" -> "either"
                    [] hit = "element" -> "found" [] OTHER -> "nonelement")

Miss(tb, c) == c.m \in Lookups /\ c.n \notin tb[TableOf[c.m]]

Init == tabs = Tabs0 /\ seen = {} /\ h = <<>>
Call(c) ==
  /\ Len(h) < Depth
  /\ h' = Append(h, [m |-> c.m, n |-> c.n, k |-> c.k, t |-> c.t, exp |-> Answer(tabs, c)])
  /\ seen' = seen \cup {c.n}
  /\ tabs' = IF InsertOnMiss /\ Miss(tabs, c)
             THEN [tabs EXCEPT ![TableOf[c.m]] = @ \cup {c.n}]
             ELSE tabs
Next == \E c \in Calls : Call(c)
Spec == Init /\ [][Next]_vars

-----------------------------------------------------------------------------
TypeOK == /\ \A c \in Calls : c.m \in Lookups \cup MassCalls \cup {"isEleShort", "isEleFull", "isElement"}
          /\ \A c \in Calls : c.m \in MassCalls => c.n \in Known \cup {"zero", "mid"}
          \* tolerance c.t (a decimal string): offsets k # 0 only with the tight 0.01, where no other element is
          \* within reach; with a LARGE tolerance (0.5, 2: neighbouring elements such as Co/Ni, Ar/Ca, K/Ar, Te/I lie
          \* inside it) the mass is exactly the base element's, whose closest element is the base itself
          /\ \A c \in Calls : c.t \in {"0.01", "0.5", "2"} /\ (c.t # "0.01" => (c.k = 0 /\ c.n \in Known))
          /\ \A c \in Calls : (c.m \in Lookups /\ TableOf[c.m] = "CovRad") => c.n \in Known
NoTrace == tabs = Tabs0
HistoryIndependent == \A c \in Calls : Answer(tabs, c) = Answer(Tabs0, c)
\* a reverse lookup never names a non-element, a lookup never answers from a default entry
OnlyElements == \A i \in DOMAIN h : h[i].exp \notin {"nonelement", "default"}
Export == (Emit /\ Len(h) = Depth) => PrintT(ToJson([h |-> h]))
=============================================================================
