SPECIFICATION Spec
CONSTANTS
  Known <- TKnown
  KnownFull <- TFull
  Unknown <- TUnknown
  Calls <- TCalls
  Depth = 8
  InsertOnMiss = FALSE
  Emit = TRUE
INVARIANTS TypeOK NoTrace HistoryIndependent OnlyElements Export
CHECK_DEADLOCK FALSE
