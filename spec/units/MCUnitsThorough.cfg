SPECIFICATION Spec
CONSTANTS
  Emit = TRUE
  Chains = TRUE
INVARIANTS AlgoIsSpec IdentityHolds DiagonalOnly DeclaredCoherent LayersPresent ElementTableOK Export
CHECK_DEADLOCK FALSE
