---- MODULE MCElementsHist ----
EXTENDS ElementsHist
C(m, n, k) == [m |-> m, n |-> n, k |-> k, t |-> "0.01"]
CT(m, n, t) == [m |-> m, n |-> n, k |-> 0, t |-> t]
Close == {"Co", "Ni", "Ar", "Ca", "K", "Te", "I"}   \* neighbours in mass: 58.93/58.69, 39.95/40.08, 39.10, 127.6/126.9
MissLookups == {"getMass", "getNucCrg", "getEleNum", "getEleFull", "getEleShort", "getVdWChelpG", "getVdWMK",
                "getPolarizability"}
Members == {"isEleShort", "isEleFull", "isElement"}
\* quick: one non-element name, one element, the boundary masses around 0, C and between C and N
QKnown == {"C", "N", "6"} \cup Close
QUnknown == {"CH3", "999"}
QFull == {"CARBON"}
TFull == {"CARBON", "LEAD", "HYDROGEN"}
QCalls == {C(m, "CH3", 0) : m \in MissLookups \cup Members}
          \cup {C("getEleName", "999", 0), C("getEleName", "6", 0), C("getMass", "C", 0), C("getEleFull", "C", 0),
                C("getCovRadBohr", "C", 0), C("getCovRadBadUnit", "C", 0),
                \* the predicates and the full-name table on KNOWN names: lazily filled tables must not depend on
                \* which call came first
                C("isEleShort", "C", 0), C("isElement", "C", 0), C("isEleFull", "CARBON", 0),
                C("getEleShort", "CARBON", 0), C("isElement", "CARBON", 0)}
          \* reverse look-ups with LARGE tolerances on elements that are neighbours in mass
          \cup {CT("getEleShortClosestInMass", b, "0.5") : b \in {"Co", "Ni", "Ar", "Ca"}}
          \cup {CT("getEleShortClosestInMass", b, "2") : b \in {"K", "Te", "I"}}
          \cup {CT("isMassAssociatedWithElement", "Ni", "0.5")}
          \cup {C("getEleShortClosestInMass", "zero", 0), C("getEleShortClosestInMass", "zero", 1),
                C("getEleShortClosestInMass", "C", 1), C("getEleShortClosestInMass", "C", 3),
                C("getEleShortClosestInMass", "mid", 0),
                C("isMassAssociatedWithElement", "zero", 1), C("isMassAssociatedWithElement", "C", -1)}
\* thorough (simulation): more names, every lookup on every name, all boundary offsets
TKnown == {"C", "N", "H", "Pb", "6", "82"} \cup Close
TUnknown == {"CH3", "Xx", "c", "999", "0"}
TNames == {"C", "H", "Pb", "CH3", "Xx", "c"}
TCalls == {C(m, n, 0) : m \in MissLookups \cup Members, n \in TNames}
          \cup {C("getEleName", n, 0) : n \in {"6", "82", "999", "0"}}
          \cup {C(m, n, 0) : m \in {"isEleFull", "getEleShort", "isElement", "isEleShort"}, n \in TFull}
          \cup {C(m, n, 0) : m \in {"getCovRadAng", "getCovRadBohr", "getCovRadNm", "getCovRadBadUnit"}, n \in {"C", "H", "Pb"}}
          \cup {C(m, b, k) : m \in MassCalls, b \in {"zero", "C", "H", "Pb"}, k \in {-3, -2, -1, 0, 1, 2, 3}}
          \cup {C(m, "mid", 0) : m \in MassCalls}
          \cup {CT(m, b, t) : m \in MassCalls, b \in Close, t \in {"0.01", "0.5", "2"}}
====
