---- MODULE MCElementsHist ----
EXTENDS ElementsHist
C(m, n, k) == [m |-> m, n |-> n, k |-> k]
MissLookups == {"getMass", "getNucCrg", "getEleNum", "getEleFull", "getEleShort", "getVdWChelpG", "getVdWMK",
                "getPolarizability"}
Members == {"isEleShort", "isEleFull", "isElement"}
\* quick: one non-element name, one element, the boundary masses around 0, C and between C and N
QKnown == {"C", "N", "6"}
QUnknown == {"CH3", "999"}
QFull == {"CARBON"}
TFull == {"CARBON", "LEAD", "HYDROGEN"}
QCalls == {C(m, "CH3", 0) : m \in MissLookups \cup Members}
          \cup {C("getEleName", "999", 0), C("getEleName", "6", 0), C("getMass", "C", 0), C("getEleFull", "C", 0),
                C("getCovRadBohr", "C", 0), C("getCovRadBadUnit", "C", 0),
                \* the predicates and the full-name table on KNOWN names: lazily filled tables must not depend on
                \* which call came first
                C("isEleShort", "C", 0), C("isElement", "C", 0), C("isEleFull", "CARBON", 0),
                C("getEleShort", "CARBON", 0), C("isElement", "CARBON", 0)}
          \cup {C("getEleShortClosestInMass", "zero", 0), C("getEleShortClosestInMass", "zero", 1),
                C("getEleShortClosestInMass", "C", 1), C("getEleShortClosestInMass", "C", 3),
                C("getEleShortClosestInMass", "mid", 0),
                C("isMassAssociatedWithElement", "zero", 1), C("isMassAssociatedWithElement", "C", -1)}
\* thorough (simulation): more names, every lookup on every name, all boundary offsets
TKnown == {"C", "N", "H", "Pb", "6", "82"}
TUnknown == {"CH3", "Xx", "c", "999", "0"}
TNames == {"C", "H", "Pb", "CH3", "Xx", "c"}
TCalls == {C(m, n, 0) : m \in MissLookups \cup Members, n \in TNames}
          \cup {C("getEleName", n, 0) : n \in {"6", "82", "999", "0"}}
          \cup {C(m, n, 0) : m \in {"isEleFull", "getEleShort", "isElement", "isEleShort"}, n \in TFull}
          \cup {C(m, n, 0) : m \in {"getCovRadAng", "getCovRadBohr", "getCovRadNm", "getCovRadBadUnit"}, n \in {"C", "H", "Pb"}}
          \cup {C(m, b, k) : m \in MassCalls, b \in {"zero", "C", "H", "Pb"}, k \in {-3, -2, -1, 0, 1, 2, 3}}
          \cup {C(m, "mid", 0) : m \in MassCalls}
====
