------------------------------- MODULE Units -------------------------------
(* C20 - unit conversions and physical constants.

   Every unit is a vector of integer exponents over a small set of GENERATORS
   (10, the thermochemical calorie 4184/1000 J, N_A, e, a0, Eh, amu, kB, h, 2pi,
   m_e, c, alpha, 2): the SI magnitude of one such unit is the generator product.
   A conversion factor (number of `to` units in one `from` unit) is the product
   over the DIFFERENCE vector.  The module contains

     Spec  : the declarative table SI(dim, unit) and SpecConv = SI(from) - SI(to);
     Algo  : a transcription of the STRUCTURE of tools::UnitConverter
             (unitconverter.h): per-dimension "units per reference unit" tables,
             convert = value(to) / value(from), and the derived dimensions
             (velocity, force, molar force) built from calls of convert() on the
             base dimensions exactly as get{Velocity,Force,MolarForce}Value_ do;
     Places: every other place of the library that encodes a conversion factor:
             tools::conv::* (constants.h) and the factors applied by the LAMMPS
             dump reader / dump writer / data reader, expressed through the units
             those classes DECLARE (LAMMPS "real") and csg::CsgUnits.

   TLC checks, for all ordered pairs / triples (/ 4-chains) of every enum:
   Algo = Spec, round trip = identity, transitivity, derived = quotient of the
   bases, consistency of the declared unit systems - and EMITS the complete
   obligation set: for every place its exponent vector ("value" obligations, to be
   evaluated with CODATA/SI generator values by the checker) and every
   multiplicative identity between places ("identity" obligations: a list of
   (place, exponent) terms whose vectors TLC has shown to sum to zero, so the
   product of the real numbers must be 1).                                        *)
EXTENDS Integers, Sequences, FiniteSets, TLC, Json

CONSTANTS Emit,       \* print obligations
          Chains      \* also enumerate 4-chains a->b->c->d (thorough tier)

VARIABLES ob, el
vars == <<ob, el>>

-----------------------------------------------------------------------------
(* exponent vectors *)
Gens == {"ten", "cal", "NA", "e", "a0", "Eh", "amu", "kB", "h", "twopi", "me", "c", "alpha", "two"}
Zero == [g \in Gens |-> 0]
G(g, n) == [x \in Gens |-> IF x = g THEN n ELSE 0]
Ten(n) == G("ten", n)
a \oplus b == [g \in Gens |-> a[g] + b[g]]
a \ominus b == [g \in Gens |-> a[g] - b[g]]
Neg(a) == [g \in Gens |-> 0 - a[g]]
Scale(n, a) == [g \in Gens |-> n * a[g]]
OnlyTen(a) == \A g \in Gens \ {"ten"} : a[g] = 0

-----------------------------------------------------------------------------
(* Spec: SI magnitude of one unit (metre, kilogram, second, joule, joule per
   particle, coulomb, m/s, newton, newton per particle).  Field names are the
   enumerator names of unitconverter.h.                                        *)
SIDistance == [meters |-> Zero, centimeters |-> Ten(-2), nanometers |-> Ten(-9),
               angstroms |-> Ten(-10), bohr |-> G("a0", 1)]
SIMass == [attograms |-> Ten(-21), picograms |-> Ten(-15), femtograms |-> Ten(-18),
           atomic_mass_units |-> G("amu", 1),
           grams_per_mole |-> Ten(-3) \ominus G("NA", 1),
           kilograms |-> Zero, grams |-> Ten(-3)]
SITime == [seconds |-> Zero, microseconds |-> Ten(-6), nanoseconds |-> Ten(-9),
           femtoseconds |-> Ten(-15), picoseconds |-> Ten(-12)]
SIEnergy == [electron_volts |-> G("e", 1), kilocalories |-> Ten(3) \oplus G("cal", 1),
             hartrees |-> G("Eh", 1), joules |-> Zero, kilojoules |-> Ten(3)]
MolarOf == [kilojoules_per_mole |-> "kilojoules", joules_per_mole |-> "joules",
            kilocalories_per_mole |-> "kilocalories",
            electron_volts_per_mole |-> "electron_volts",
            hartrees_per_mole |-> "hartrees"]
SIMolarEnergy == [u \in DOMAIN MolarOf |-> SIEnergy[MolarOf[u]] \ominus G("NA", 1)]
SICharge == [e |-> G("e", 1), coulombs |-> Zero]
\* derived units: <<numerator unit, denominator unit>>
VelParts == [angstroms_per_femtosecond |-> <<"angstroms", "femtoseconds">>,
             angstroms_per_picosecond |-> <<"angstroms", "picoseconds">>,
             nanometers_per_picosecond |-> <<"nanometers", "picoseconds">>]
ForceParts == [kilocalories_per_angstrom |-> <<"kilocalories", "angstroms">>,
               newtons |-> <<"joules", "meters">>,
               kilojoules_per_nanometer |-> <<"kilojoules", "nanometers">>,
               kilojoules_per_angstrom |-> <<"kilojoules", "angstroms">>,
               hatree_per_bohr |-> <<"hartrees", "bohr">>]
MolarForceParts == [kilocalories_per_mole_angstrom |-> <<"kilocalories_per_mole", "angstroms">>,
                    newtons_per_mole |-> <<"joules_per_mole", "meters">>,
                    kilojoules_per_mole_nanometer |-> <<"kilojoules_per_mole", "nanometers">>,
                    kilojoules_per_mole_angstrom |-> <<"kilojoules_per_mole", "angstroms">>,
                    hatree_per_mole_bohr |-> <<"hartrees_per_mole", "bohr">>]
SIVelocity == [u \in DOMAIN VelParts |-> SIDistance[VelParts[u][1]] \ominus SITime[VelParts[u][2]]]
SIForce == [u \in DOMAIN ForceParts |-> SIEnergy[ForceParts[u][1]] \ominus SIDistance[ForceParts[u][2]]]
SIMolarForce == [u \in DOMAIN MolarForceParts |->
                   SIMolarEnergy[MolarForceParts[u][1]] \ominus SIDistance[MolarForceParts[u][2]]]

SITable == [Distance |-> SIDistance, Mass |-> SIMass, Time |-> SITime, Energy |-> SIEnergy,
            MolarEnergy |-> SIMolarEnergy, Charge |-> SICharge, Velocity |-> SIVelocity,
            Force |-> SIForce, MolarForce |-> SIMolarForce]
Dims == DOMAIN SITable
BaseDims == {"Distance", "Mass", "Time", "Energy", "MolarEnergy", "Charge"}
DimRank == [Distance |-> 1, Mass |-> 2, Time |-> 3, Energy |-> 4, MolarEnergy |-> 5, Charge |-> 6,
            Velocity |-> 7, Force |-> 8, MolarForce |-> 9]
UnitsOf(d) == DOMAIN SITable[d]
SI(d, u) == SITable[d][u]
\* number of `b` units in one `a` unit
SpecConv(d, a, b) == SI(d, a) \ominus SI(d, b)

-----------------------------------------------------------------------------
(* Algo: the structure of tools::UnitConverter.  Each get<Dim>Value_(u) returns the
   number of u-units in one reference unit ("All distances with respect to Ang"),
   convert(from,to) = value(to) / value(from).  For the base dimensions the table
   entries are literals; their MEANING is "u per reference".                     *)
RefUnit == [Distance |-> "angstroms", Mass |-> "atomic_mass_units", Time |-> "picoseconds",
            Energy |-> "electron_volts", MolarEnergy |-> "electron_volts_per_mole", Charge |-> "e"]
BaseValue(d, u) == SI(d, RefUnit[d]) \ominus SI(d, u)
BaseConvert(d, a, b) == BaseValue(d, b) \ominus BaseValue(d, a)

\* getVelocityValue_ : reference nanometers_per_picosecond
VelocityValue(u) ==
  CASE u = "nanometers_per_picosecond" -> Zero
    [] u = "angstroms_per_picosecond" -> BaseConvert("Distance", "nanometers", "angstroms")
    [] u = "angstroms_per_femtosecond" ->
         BaseConvert("Distance", "nanometers", "angstroms")
           \ominus BaseConvert("Time", "picoseconds", "femtoseconds")
\* getForceValue_ : reference kilojoules_per_nanometer
ForceValue(u) ==
  CASE u = "kilocalories_per_angstrom" ->
         BaseConvert("Energy", "kilojoules", "kilocalories")
           \ominus BaseConvert("Distance", "nanometers", "angstroms")
    [] u = "newtons" ->
         BaseConvert("Energy", "kilojoules", "joules")
           \ominus BaseConvert("Distance", "nanometers", "meters")
    [] u = "kilojoules_per_nanometer" -> Zero
    [] u = "kilojoules_per_angstrom" -> Zero \ominus BaseConvert("Distance", "nanometers", "angstroms")
    [] u = "hatree_per_bohr" ->
         BaseConvert("Energy", "kilojoules", "hartrees")
           \ominus BaseConvert("Distance", "nanometers", "bohr")
\* getMolarForceValue_ : reference kilojoules_per_mole_nanometer
MolarForceValue(u) ==
  CASE u = "kilocalories_per_mole_angstrom" ->
         BaseConvert("MolarEnergy", "kilojoules_per_mole", "kilocalories_per_mole")
           \ominus BaseConvert("Distance", "nanometers", "angstroms")
    [] u = "newtons_per_mole" ->
         BaseConvert("MolarEnergy", "kilojoules_per_mole", "joules_per_mole")
           \ominus BaseConvert("Distance", "nanometers", "meters")
    [] u = "kilojoules_per_mole_nanometer" -> Zero
    [] u = "kilojoules_per_mole_angstrom" -> Zero \ominus BaseConvert("Distance", "nanometers", "angstroms")
    [] u = "hatree_per_mole_bohr" ->
         BaseConvert("MolarEnergy", "kilojoules_per_mole", "hartrees_per_mole")
           \ominus BaseConvert("Distance", "nanometers", "bohr")
Value(d, u) == CASE d = "Velocity" -> VelocityValue(u)
                 [] d = "Force" -> ForceValue(u)
                 [] d = "MolarForce" -> MolarForceValue(u)
                 [] OTHER -> BaseValue(d, u)
AlgoConv(d, a, b) == Value(d, b) \ominus Value(d, a)

-----------------------------------------------------------------------------
(* Places.  A place is a record [t, dim, a, b]:
     t = "uc"     UnitConverter::convert(dim::a, dim::b)
     t = "const"  tools::conv::<a>
     t = "lammps" the factor applied by <a> (e.g. "dumpreader:force")
     t = "io"     the factor applied by another trajectory reader/writer <a> (gro, xyz, pdb, dlpoly)
     t = "expr"   a product of constants used in the sources / a literal of a script (<a>)
     t = "gen"    a generator of the checker's own table (self checks only)        *)
UC(d, a, b) == [t |-> "uc", dim |-> d, a |-> a, b |-> b]
CONST(n) == [t |-> "const", dim |-> "", a |-> n, b |-> ""]
LMP(n) == [t |-> "lammps", dim |-> "", a |-> n, b |-> ""]
GEN(g) == [t |-> "gen", dim |-> "", a |-> g, b |-> ""]
IO(n) == [t |-> "io", dim |-> "", a |-> n, b |-> ""]
EXPR(n) == [t |-> "expr", dim |-> "", a |-> n, b |-> ""]

\* constants.h, "unitA2unitB" = number of B in one A
ConstVec == [
  Pi |-> G("twopi", 1) \ominus G("two", 1),
  kB |-> G("kB", 1) \ominus G("e", 1),                         \* eV / K
  hbar |-> (G("h", 1) \ominus G("twopi", 1)) \ominus G("e", 1), \* eV s
  bohr2nm |-> SpecConv("Distance", "bohr", "nanometers"),
  nm2bohr |-> SpecConv("Distance", "nanometers", "bohr"),
  ang2bohr |-> SpecConv("Distance", "angstroms", "bohr"),
  bohr2ang |-> SpecConv("Distance", "bohr", "angstroms"),
  nm2ang |-> SpecConv("Distance", "nanometers", "angstroms"),
  ang2nm |-> SpecConv("Distance", "angstroms", "nanometers"),
  hrt2ev |-> SpecConv("Energy", "hartrees", "electron_volts"),
  ev2hrt |-> SpecConv("Energy", "electron_volts", "hartrees"),
  \* eV per particle -> kJ per mole of particles
  ev2kj_per_mol |-> SI("Energy", "electron_volts") \ominus SI("MolarEnergy", "kilojoules_per_mole"),
  kcal2kj |-> SpecConv("Energy", "kilocalories", "kilojoules"),
  kj2kcal |-> SpecConv("Energy", "kilojoules", "kilocalories")]

\* unit systems DECLARED in the code (members of the reader/writer classes and of
\* csg::CsgUnits); the checker compares them with what the driver reports.
LammpsReal == [distance |-> "angstroms", time |-> "femtoseconds", mass |-> "grams_per_mole",
               energy |-> "kilocalories_per_mole", charge |-> "e",
               force |-> "kilocalories_per_mole_angstrom", velocity |-> "angstroms_per_femtosecond"]
Csg == [distance |-> "nanometers", time |-> "picoseconds", mass |-> "atomic_mass_units",
        energy |-> "kilojoules_per_mole", charge |-> "e",
        force |-> "kilojoules_per_mole_nanometer", velocity |-> "nanometers_per_picosecond"]
\* a declared system is coherent: its velocity / force units are built from its
\* own distance, time and energy units
Coherent(s) == /\ VelParts[s.velocity] = <<s.distance, s.time>>
               /\ MolarForceParts[s.force] = <<s.energy, s.distance>>
In(q)  == SpecConv(CASE q = "distance" -> "Distance" [] q = "velocity" -> "Velocity"
                     [] q = "force" -> "MolarForce" [] q = "mass" -> "Mass" [] q = "charge" -> "Charge",
                   LammpsReal[q], Csg[q])
LammpsVec == [
  dumpreader_pos |-> In("distance"), dumpreader_box |-> In("distance"),
  \* the other coordinate styles the reader accepts: scaled xs ys zs (fraction of the box edge, the box being
  \* converted once in ReadBox) and unwrapped xu yu zu - the same physical position must come out
  dumpreader_pos_xs |-> In("distance"), dumpreader_pos_xu |-> In("distance"),
  dumpreader_vel |-> In("velocity"), dumpreader_force |-> In("force"),
  dumpwriter_pos |-> Neg(In("distance")), dumpwriter_box |-> Neg(In("distance")),
  dumpwriter_vel |-> Neg(In("velocity")), dumpwriter_force |-> Neg(In("force")),
  datareader_pos |-> In("distance"), datareader_box |-> In("distance"),
  datareader_mass |-> In("mass"), datareader_charge |-> In("charge")]


(* The other trajectory formats.  gro declares the csg system itself; xyz and pdb declare only
   angstroms; DL_POLY (HISTORY/CONFIG) declares angstroms, picoseconds, atomic mass units and
   angstroms_per_picosecond.  DL_POLY forces are in the COHERENT unit of that system,
   u A ps^-2 (= 10 J/mol/A, DL_POLY's internal unit); the enums of unitconverter.h cannot express it -
   the classes declare joules_per_mole / kilojoules_per_mole_angstrom, which the checker reports as a
   documentation warning, while the applied factor is held against the coherent unit.            *)
GroSys == Csg
AngSys == [distance |-> "angstroms"]
DlpolySys == [distance |-> "angstroms", time |-> "picoseconds", mass |-> "atomic_mass_units", charge |-> "e",
              velocity |-> "angstroms_per_picosecond"]
DlForceSI == (SIMass[DlpolySys.mass] \oplus SIDistance[DlpolySys.distance]) \ominus Scale(2, SITime[DlpolySys.time])
CsgForceSI == SI("MolarForce", Csg.force)
DistIn(u) == SpecConv("Distance", u, Csg.distance)
IOVec == [
  groreader_pos |-> DistIn(GroSys.distance), groreader_box |-> DistIn(GroSys.distance),
  groreader_vel |-> SpecConv("Velocity", GroSys.velocity, Csg.velocity),
  growriter_pos |-> Neg(DistIn(GroSys.distance)), growriter_box |-> Neg(DistIn(GroSys.distance)),
  growriter_vel |-> SpecConv("Velocity", Csg.velocity, GroSys.velocity),
  xyzreader_pos |-> DistIn(AngSys.distance), xyzwriter_pos |-> Neg(DistIn(AngSys.distance)),
  \* the generic-container overloads (atoms of QM molecules, positions in bohr): XYZReader::ReadFile(container),
  \* XYZWriter::Write(container, header), PDBWriter::WriteContainer(container)
  xyzreader_pos_atoms |-> SpecConv("Distance", AngSys.distance, "bohr"),
  xyzwriter_pos_atoms |-> SpecConv("Distance", "bohr", AngSys.distance),
  pdbwriter_pos_atoms |-> SpecConv("Distance", "bohr", AngSys.distance),
  pdbreader_pos |-> DistIn(AngSys.distance), pdbreader_box |-> DistIn(AngSys.distance),
  pdbwriter_pos |-> Neg(DistIn(AngSys.distance)),
  dlpolyreader_pos |-> DistIn(DlpolySys.distance), dlpolyreader_box |-> DistIn(DlpolySys.distance),
  dlpolyreader_vel |-> SpecConv("Velocity", DlpolySys.velocity, Csg.velocity),
  dlpolyreader_force |-> DlForceSI \ominus CsgForceSI,
  dlpolywriter_pos |-> Neg(DistIn(DlpolySys.distance)), dlpolywriter_box |-> Neg(DistIn(DlpolySys.distance)),
  dlpolywriter_vel |-> SpecConv("Velocity", Csg.velocity, DlpolySys.velocity),
  dlpolywriter_force |-> CsgForceSI \ominus DlForceSI]
IONames == <<"groreader_pos", "groreader_box", "groreader_vel", "growriter_pos", "growriter_box", "growriter_vel",
             "xyzreader_pos", "xyzwriter_pos", "xyzreader_pos_atoms", "xyzwriter_pos_atoms", "pdbwriter_pos_atoms",
             "pdbreader_pos", "pdbreader_box", "pdbwriter_pos",
             "dlpolyreader_pos", "dlpolyreader_box", "dlpolyreader_vel", "dlpolyreader_force",
             "dlpolywriter_pos", "dlpolywriter_box", "dlpolywriter_vel", "dlpolywriter_force">>
(* products of constants used in the sources, literals in scripts, unit switches of tools::Elements *)
ExprVec == [
  \* csg_boltzmann/tabulatedpotential.cc: conv::kB * conv::ev2kj_per_mol = k_B in kJ/mol/K
  kB_times_ev2kj_per_mol |-> (G("kB", 1) \oplus G("NA", 1)) \ominus Ten(3),
  \* csg/share/scripts/inverse/functions_gromacs.sh: literal 0.00831451 "k_b in gromacs units"
  script_gromacs_kB |-> (G("kB", 1) \oplus G("NA", 1)) \ominus Ten(3),
  \* csg_boltzmann TabulatedPotential ("tab"): U = -k_B T ln p in kJ/mol.  Observed thermal-energy constant
  \* U / (T ln(n1/n2)) of the populated bins and of the bins WITHOUT samples (documented: they get the value of the
  \* least populated bin) - the same k_B in kJ/mol/K at every site of the table
  boltzmann_populated |-> (G("kB", 1) \oplus G("NA", 1)) \ominus Ten(3),
  boltzmann_empty |-> (G("kB", 1) \oplus G("NA", 1)) \ominus Ten(3),
  \* tools::Elements::getCovRad(name, unit): ratio of the "bohr" / "nm" answer to the "ang" answer
  covrad_bohr_per_ang |-> SpecConv("Distance", "angstroms", "bohr"),
  covrad_nm_per_ang |-> SpecConv("Distance", "angstroms", "nanometers")]
ExprNames == <<"kB_times_ev2kj_per_mol", "script_gromacs_kB", "boltzmann_populated", "boltzmann_empty", "covrad_bohr_per_ang", "covrad_nm_per_ang">>

UCPlaces == {UC(d, a, b) : <<d, a, b>> \in
               UNION {{<<d, a, b>> : a \in UnitsOf(d), b \in UnitsOf(d)} : d \in Dims}}
ConstPlaces == {CONST(n) : n \in DOMAIN ConstVec}
LammpsPlaces == {LMP(n) : n \in DOMAIN LammpsVec}
IOPlaces == {IO(n) : n \in DOMAIN IOVec}
ExprPlaces == {EXPR(n) : n \in DOMAIN ExprVec}
OtherPlaces == ConstPlaces \cup LammpsPlaces \cup IOPlaces \cup ExprPlaces

PlaceVec(p) == CASE p.t = "uc" -> AlgoConv(p.dim, p.a, p.b)
                 [] p.t = "const" -> ConstVec[p.a]
                 [] p.t = "lammps" -> LammpsVec[p.a]
                 [] p.t = "io" -> IOVec[p.a]
                 [] p.t = "expr" -> ExprVec[p.a]
                 [] p.t = "gen" -> G(p.a, 1)

-----------------------------------------------------------------------------
(* Obligations: [kind, terms] with terms a sequence of [p |-> place, x |-> exponent] *)
T(p, x) == [p |-> p, x |-> x]
RECURSIVE SumTerms(_)
SumTerms(ts) == IF ts = <<>> THEN Zero
                ELSE Scale(Head(ts).x, PlaceVec(Head(ts).p)) \oplus SumTerms(Tail(ts))

ValueObs == {[kind |-> "value", terms |-> <<T(p, 1)>>] : p \in UCPlaces \cup OtherPlaces}

RoundTripObs == {[kind |-> "roundtrip", terms |-> <<T(UC(p.dim, p.a, p.b), 1), T(UC(p.dim, p.b, p.a), 1)>>]
                   : p \in UCPlaces}
Triples == UNION {{<<d, a, b, c>> : a \in UnitsOf(d), b \in UnitsOf(d), c \in UnitsOf(d)} : d \in Dims}
TripleObs == {[kind |-> "transitive",
               terms |-> <<T(UC(t[1], t[2], t[3]), 1), T(UC(t[1], t[3], t[4]), 1), T(UC(t[1], t[2], t[4]), -1)>>]
                : t \in Triples}
Quads == IF Chains
         THEN UNION {{<<d, a, b, c, e>> : a \in UnitsOf(d), b \in UnitsOf(d), c \in UnitsOf(d), e \in UnitsOf(d)}
                       : d \in Dims}
         ELSE {}
ChainObs == {[kind |-> "chain",
              terms |-> <<T(UC(t[1], t[2], t[3]), 1), T(UC(t[1], t[3], t[4]), 1), T(UC(t[1], t[4], t[5]), 1),
                          T(UC(t[1], t[2], t[5]), -1)>>] : t \in Quads}
\* derived = quotient of the base conversions
DerivedOf(d) == CASE d = "Velocity" -> <<VelParts, "Distance", "Time">>
                  [] d = "Force" -> <<ForceParts, "Energy", "Distance">>
                  [] d = "MolarForce" -> <<MolarForceParts, "MolarEnergy", "Distance">>
DerivedObs == UNION {
  {[kind |-> "derived",
    terms |-> <<T(UC(d, a, b), 1),
                T(UC(DerivedOf(d)[2], DerivedOf(d)[1][a][1], DerivedOf(d)[1][b][1]), -1),
                T(UC(DerivedOf(d)[3], DerivedOf(d)[1][a][2], DerivedOf(d)[1][b][2]), 1)>>]
     : <<a, b>> \in UnitsOf(d) \X UnitsOf(d)} : d \in {"Velocity", "Force", "MolarForce"}}

\* "the same quantity in two places": TLC DISCOVERS the relation by comparing vectors
\* (equal: p/q = 1; opposite: p*q = 1).  Pure identities (zero vector) carry nothing.
ConstNames == <<"Pi", "kB", "hbar", "bohr2nm", "nm2bohr", "ang2bohr", "bohr2ang", "nm2ang", "ang2nm",
                "hrt2ev", "ev2hrt", "ev2kj_per_mol", "kcal2kj", "kj2kcal">>
LammpsNames == <<"dumpreader_pos", "dumpreader_pos_xs", "dumpreader_pos_xu", "dumpreader_box", "dumpreader_vel", "dumpreader_force",
                 "dumpwriter_pos", "dumpwriter_box", "dumpwriter_vel", "dumpwriter_force",
                 "datareader_pos", "datareader_box", "datareader_mass", "datareader_charge">>
ASSUME /\ {ConstNames[i] : i \in DOMAIN ConstNames} = DOMAIN ConstVec
       /\ {LammpsNames[i] : i \in DOMAIN LammpsNames} = DOMAIN LammpsVec
       /\ {IONames[i] : i \in DOMAIN IONames} = DOMAIN IOVec
       /\ {ExprNames[i] : i \in DOMAIN ExprNames} = DOMAIN ExprVec
OtherSeq == [i \in DOMAIN ConstNames |-> CONST(ConstNames[i])] \o [i \in DOMAIN LammpsNames |-> LMP(LammpsNames[i])]
            \o [i \in DOMAIN IONames |-> IO(IONames[i])] \o [i \in DOMAIN ExprNames |-> EXPR(ExprNames[i])]
SamePairs ==
  {<<OtherSeq[i], OtherSeq[j]>> : <<i, j>> \in {ij \in (DOMAIN OtherSeq) \X (DOMAIN OtherSeq) : ij[1] < ij[2]}}
  \cup (OtherPlaces \X {p \in UCPlaces : p.a # p.b})
  \cup {pq \in UCPlaces \X UCPlaces : /\ DimRank[pq[1].dim] < DimRank[pq[2].dim]
                                       /\ ~OnlyTen(PlaceVec(pq[1]))}
SameObs == {[kind |-> "same", terms |-> <<T(pq[1], 1), T(pq[2], -1)>>]
              : pq \in {x \in SamePairs : PlaceVec(x[1]) # Zero /\ PlaceVec(x[1]) = PlaceVec(x[2])}}
           \cup
           {[kind |-> "same", terms |-> <<T(pq[1], 1), T(pq[2], 1)>>]
              : pq \in {x \in SamePairs : PlaceVec(x[1]) # Zero /\ PlaceVec(x[1]) = Neg(PlaceVec(x[2]))}}

\* self checks of the checker's generator table: physical relations among the
\* generators (NOT identities of the algebra - the generators are independent symbols
\* here), which the CODATA-2018 adjusted values satisfy to ~1e-9
SelfObs == {
  \* Eh a0^2 m_e = hbar^2
  [kind |-> "selfcheck", terms |-> <<T(GEN("Eh"), 1), T(GEN("a0"), 2), T(GEN("me"), 1), T(GEN("twopi"), 2), T(GEN("h"), -2)>>],
  \* alpha = hbar / (m_e c a0)
  [kind |-> "selfcheck", terms |-> <<T(GEN("h"), 1), T(GEN("twopi"), -1), T(GEN("me"), -1), T(GEN("c"), -1), T(GEN("a0"), -1), T(GEN("alpha"), -1)>>],
  \* Eh = alpha^2 m_e c^2
  [kind |-> "selfcheck", terms |-> <<T(GEN("Eh"), 1), T(GEN("alpha"), -2), T(GEN("me"), -1), T(GEN("c"), -2)>>]}
\* m_u N_A = 1 g/mol only up to 3.5e-10 since SI-2019: a "nearly" identity, vector not zero
NearObs == {[kind |-> "near", terms |-> <<T(GEN("amu"), 1), T(GEN("NA"), 1), T(GEN("ten"), 3)>>]}

\* compositions across overloads: the same xyz file read into a Topology (nm) and into an atom container (bohr)
ComposeObs == {[kind |-> "compose", terms |-> <<T(IO("xyzreader_pos_atoms"), 1), T(IO("xyzreader_pos"), -1),
                                              T(CONST("nm2bohr"), -1)>>],
               [kind |-> "compose", terms |-> <<T(IO("xyzwriter_pos_atoms"), 1), T(IO("xyzwriter_pos"), -1),
                                              T(CONST("bohr2nm"), -1)>>]}
Obligations == ComposeObs \cup ValueObs \cup RoundTripObs \cup TripleObs \cup ChainObs \cup DerivedObs \cup SameObs
               \cup SelfObs \cup NearObs
NoOb == [kind |-> "none", terms |-> <<>>]

-----------------------------------------------------------------------------
(* Element reference table: symbol by atomic number, standard atomic weight in
   1/1000 u (IUPAC abridged; 0 = no stable isotope, no mass obligation).        *)
ElSym == <<"H", "He", "Li", "Be", "B", "C", "N", "O", "F", "Ne",
           "Na", "Mg", "Al", "Si", "P", "S", "Cl", "Ar", "K", "Ca",
           "Sc", "Ti", "V", "Cr", "Mn", "Fe", "Co", "Ni", "Cu", "Zn",
           "Ga", "Ge", "As", "Se", "Br", "Kr", "Rb", "Sr", "Y", "Zr",
           "Nb", "Mo", "Tc", "Ru", "Rh", "Pd", "Ag", "Cd", "In", "Sn",
           "Sb", "Te", "I", "Xe", "Cs", "Ba", "La", "Ce", "Pr", "Nd",
           "Pm", "Sm", "Eu", "Gd", "Tb", "Dy", "Ho", "Er", "Tm", "Yb",
           "Lu", "Hf", "Ta", "W", "Re", "Os", "Ir", "Pt", "Au", "Hg",
           "Tl", "Pb", "Bi", "Po", "At", "Rn", "Fr", "Ra", "Ac", "Th",
           "Pa", "U", "Np", "Pu", "Am", "Cm", "Bk", "Cf", "Es", "Fm",
           "Md", "No", "Lr", "Rf", "Db", "Sg", "Bh", "Hs", "Mt", "Ds",
           "Rg", "Cn", "Nh", "Fl", "Mc", "Lv", "Ts", "Og">>
ElMilli == <<1008, 4003, 6940, 9012, 10810, 12011, 14007, 15999, 18998, 20180,
             22990, 24305, 26982, 28085, 30974, 32060, 35450, 39948, 39098, 40078,
             44956, 47867, 50942, 51996, 54938, 55845, 58933, 58693, 63546, 65380,
             69723, 72630, 74922, 78971, 79904, 83798, 85468, 87620, 88906, 91224,
             92906, 95950, 0, 101070, 102906, 106420, 107868, 112414, 114818, 118710,
             121760, 127600, 126904, 131293, 132905, 137327, 138905, 140116, 140908, 144242,
             0, 150360, 151964, 157250, 158925, 162500, 164930, 167259, 168934, 173045,
             174967, 178490, 180948, 183840, 186207, 190230, 192217, 195084, 196967, 200592,
             204380, 207200, 208980, 0, 0, 0, 0, 0, 0, 232038,
             231036, 238029, 0, 0, 0, 0, 0, 0, 0, 0,
             0, 0, 0, 0, 0, 0, 0, 0, 0, 0,
             0, 0, 0, 0, 0, 0, 0, 0>>
\* plausibility bands that pin the UNIT of the remaining tools::Elements tables (header: covalent and
\* van-der-Waals radii in Angstrom, polarizabilities in nm^3): radii in 1/1000 A, polarizability in 1e-6 nm^3
\* (0.2 A^3 for He ... 60 A^3 for Cs).  A table in the wrong unit (nm, pm, bohr^3, A^3) leaves the band.
RadiiRanges == [covrad |-> <<200, 2700>>, vdw |-> <<1000, 3000>>, polar |-> <<100, 100000>>]
NEl == Len(ElSym)
ElementRecs == {[z |-> z, sym |-> ElSym[z], mm |-> ElMilli[z]] : z \in 1..NEl}
NoEl == [z |-> 0, sym |-> "", mm |-> 0]

-----------------------------------------------------------------------------
DeclOb == [kind |-> "declared", terms |-> <<>>]
Init == \/ (ob \in Obligations \cup {DeclOb} /\ el = NoEl)
        \/ (ob = NoOb /\ el \in ElementRecs)
Next == UNCHANGED vars
Spec == Init /\ [][Next]_vars

-----------------------------------------------------------------------------
(* design-level properties *)
\* the transcription of UnitConverter's structure computes the declarative factor
AlgoIsSpec == \A i \in DOMAIN ob.terms :
                LET p == ob.terms[i].p IN p.t = "uc" => AlgoConv(p.dim, p.a, p.b) = SpecConv(p.dim, p.a, p.b)
\* every emitted identity is an identity of the algebra (round trip, transitivity,
\* chains, derived = quotient, same quantity, generator relations)
IdentityKinds == {"roundtrip", "transitive", "chain", "derived", "same", "compose"}
IdentityHolds == ob.kind \in IdentityKinds => SumTerms(ob.terms) = Zero
\* identity conversions are exactly the diagonal, except atomic mass unit vs g/mol
\* which the code equates (both 1.0) and which differ by m_u N_A / (g/mol) - 1 = -3.5e-10
DiagonalOnly == ob.kind = "value" /\ ob.terms[1].p.t = "uc" =>
                  LET p == ob.terms[1].p IN (PlaceVec(p) = Zero <=> p.a = p.b)
\* the declared unit systems are coherent and every lammps factor is the
\* conversion between the declared systems
DeclaredCoherent == Coherent(LammpsReal) /\ Coherent(Csg)
\* vacuity guard: every place of every layer has its value obligation, the identity conversions of the gro
\* format are among them (zero vector), and the DL_POLY force factor is the non-trivial 10^-2 / (N_A m_u)
LayersPresent == /\ \A p \in OtherPlaces : [kind |-> "value", terms |-> <<T(p, 1)>>] \in Obligations
                 /\ Cardinality(OtherPlaces) = Len(OtherSeq)
                 /\ IOVec["groreader_vel"] = Zero
                 /\ IOVec["dlpolywriter_force"] = (Ten(-2) \ominus G("NA", 1)) \ominus G("amu", 1)   \* = 10 (1 + 3.5e-10)
                 /\ Coherent(GroSys)
\* element table: symbols pairwise distinct, weights positive where given
ElementTableOK == el # NoEl =>
                    /\ \A z \in 1..NEl : z # el.z => ElSym[z] # el.sym
                    /\ el.mm >= 0
                    /\ Len(ElMilli) = NEl

Export == Emit =>
  IF ob = DeclOb
  THEN PrintT(ToJson([kind |-> "declared", lammps |-> LammpsReal, csg |-> Csg, gro |-> GroSys, ang |-> AngSys,
                      dlpoly |-> DlpolySys, ranges |-> RadiiRanges]))
  ELSE IF ob # NoOb
  THEN PrintT(ToJson([kind |-> ob.kind, terms |-> ob.terms,
                      vec |-> IF ob.kind \in {"value", "near"} THEN SumTerms(ob.terms) ELSE Zero]))
  ELSE PrintT(ToJson([kind |-> "element", z |-> el.z, sym |-> el.sym, mm |-> el.mm]))
=============================================================================
