---- MODULE MCUnits ----
EXTENDS Units
====
