SPECIFICATION Spec
CONSTANTS
  Emit = TRUE
  Chains = FALSE
INVARIANTS AlgoIsSpec IdentityHolds DiagonalOnly DeclaredCoherent LayersPresent ElementTableOK Export
CHECK_DEADLOCK FALSE
