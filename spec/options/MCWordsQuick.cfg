SPECIFICATION Spec
CONSTANTS
  Words = {"x", "z", "q"}
  MaxWords = 3
  Styles = {"comma", "blank", "mixed", "commas", "lead", "trail"}
  Emit = TRUE
INVARIANTS Check DescVector
CHECK_DEADLOCK FALSE
