SPECIFICATION Spec
CONSTANTS
  Words = {"x", "y", "z", "q", "X"}
  MaxWords = 4
  Styles = {"comma", "blank", "commablank", "mixed", "commas", "lead", "trail"}
  Emit = TRUE
INVARIANTS Check DescVector
CHECK_DEADLOCK FALSE
