---- MODULE MCTinyQuick ----
EXTENDS OptTiny
====
