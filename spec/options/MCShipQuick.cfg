SPECIFICATION Spec
CONSTANTS
  NSample = 20
  NVar = 1
  BothFill = FALSE
  Seed <- EnvSeed
  PropLimit = 60
  Thin = 5
  BigMult = 25
  Emit = TRUE
INVARIANTS Check CalcVector
CHECK_DEADLOCK FALSE
