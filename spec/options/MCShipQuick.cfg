SPECIFICATION Spec
CONSTANTS
  NSample = 20
  NVar = 1
  BothFill = FALSE
  Seed <- EnvSeed
  PropLimit = 60
  Emit = TRUE
INVARIANTS Check CalcVector
CHECK_DEADLOCK FALSE
