SPECIFICATION Spec
CONSTANTS
  Extras <- MCExtras
  AVals = {"q"}
  CVals = {"-5", "3"}
  DVals = {"x", "q"}
  OVals = {}
  Depth = 3
  Emit = TRUE
INVARIANTS BypassMonotone Leaf
CHECK_DEADLOCK FALSE
