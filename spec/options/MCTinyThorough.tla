---- MODULE MCTinyThorough ----
EXTENDS OptTiny
====
