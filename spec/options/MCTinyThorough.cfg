SPECIFICATION Spec
CONSTANTS
  AKinds = {"def", "req", "opt", "one", "bad"}
  SKinds = {"plain", "opt", "req", "listopt", "listreq", "link", "linkreq", "unc"}
  CKinds = {"def", "empty", "opt", "req", "int+", "float", "sec:req", "sec:optint"}
  DKinds = {"-", "multi", "reqone"}
  Vals = {"1", "x"}
  MaxMult = 2
  Emit = TRUE
INVARIANTS Check DescVector
CHECK_DEADLOCK FALSE
