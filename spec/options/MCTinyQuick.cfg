SPECIFICATION Spec
CONSTANTS
  AKinds = {"req", "one"}
  SKinds = {"plain", "opt", "listreq", "linkreq", "unc"}
  CKinds = {"def", "opt", "int+", "sec:req"}
  DKinds = {"-", "multi"}
  Vals = {"1", "x"}
  MaxMult = 2
  Emit = TRUE
INVARIANTS Check DescVector
CHECK_DEADLOCK FALSE
