---- MODULE MCWordsQuick ----
EXTENDS OptWords
====
