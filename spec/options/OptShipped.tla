----------------------------- MODULE OptShipped -----------------------------
(* Input source (ii): the calculator descriptions shipped in xtp/share/xtp/xml and
   its subpackages/, converted to the flat form by python's ElementTree (NOT by
   VOTCA's loader; links unresolved - link resolution is part of the spec) and read
   here with ndJsonDeserialize.  For every calculator TLC chooses user trees:

     empty      only <options><calc/></options>
     single     every declared leaf alone, with each of its first NVar valid values
     invalid    every leaf with a choices attribute, with one invalid value of its type
     undecl     an undeclared name below every declared node (section or leaf)
     free       arbitrary keys below every node declared unchecked
     list       every list section with every multiplicity vector 0..2 of its element tags
     sample     NSample hashed combinations: 1..3 leaves, list multiplicities 1..2 on the way,
                sometimes an invalid value / an undeclared name / free keys
   each with (fill) or without the REQUIRED options that the chosen tree activates.
   A scenario is a record; the user tree is generated from it top down (Gen).
   The state has two steps (calculator, then scenario) so that TLC's workers share
   the scenarios of one calculator.                                              *)
EXTENDS Options, TLC, Json, IOUtils

CONSTANTS NSample, NVar, BothFill, Seed, PropLimit, Thin, BigMult, Emit
VARIABLES c, sc

All == ndJsonDeserialize(IOEnv.C11_DESCS)
Only == IOEnv.C11_ONLY                \* "" or the file name of the one calculator to run
CalcIdx == {i \in 1..Len(All) : All[i].calc /\ (Only = "" \/ All[i].file = Only)}
PkgIdx == SortedSeq({i \in 1..Len(All) : ~All[i].calc})
Pkgs == [k \in 1..Len(PkgIdx) |-> [file |-> All[PkgIdx[k]].file, t |-> All[PkgIdx[k]].t]]

\* the assumptions under which the resolution is documented (checked on the shipped data)
ASSUME \A i \in 1..Len(All) : WellFormed(All[i].t)
ASSUME \A i \in 1..Len(All) : \A j \in 1..Len(All[i].t) :
          All[i].t[j].a.hl => \A f \in {Tokens(All[i].t[j].a.ln, Seps)[x] : x \in 1..Len(Tokens(All[i].t[j].a.ln, Seps))} : KnownPkg(Pkgs, f)
ASSUME \A k \in 1..Len(Pkgs) : ~Pkgs[k].t[1].a.hl               \* package roots do not link themselves

DeclOf == [i \in CalcIdx |-> Decl(ResolveLinks(All[i].t, Pkgs))]
\* list sections carry OPTIONAL or REQUIRED and have distinct element tags; unchecked nodes are childless
ASSUME \A i \in CalcIdx : \A r \in 1..Len(DeclOf[i].t) :
          LET nd == DeclOf[i].t[r]  ks == DeclOf[i].k[r] IN
          /\ nd.a.ls => Kw(nd) # "" /\ \A x, y \in 1..Len(ks) : x # y => DeclOf[i].t[ks[x]].n # DeclOf[i].t[ks[y]].n
          /\ nd.a.un => ks = <<>>

-----------------------------------------------------------------------------
\* ---- per calculator tables (constant level: evaluated once) -------------------------
LeafSeq == [i \in CalcIdx |-> SortedSeq({r \in 3..Len(DeclOf[i].t) : DeclOf[i].k[r] = <<>>})]
NodeSeq == [i \in CalcIdx |-> SortedSeq({r \in 2..Len(DeclOf[i].t) : TRUE})]
ListSecs == [i \in CalcIdx |-> {r \in 1..Len(DeclOf[i].t) : DeclOf[i].t[r].a.ls}]
ListTags == [i \in CalcIdx |-> UNION {{DeclOf[i].k[r][x] : x \in 1..Len(DeclOf[i].k[r])} : r \in ListSecs[i]}]
Unchecked == [i \in CalcIdx |-> {r \in 1..Len(DeclOf[i].t) : DeclOf[i].t[r].a.un}]

TypeOf(a) == IF ~a.hc \/ ChoiceTokens(a.ch) = <<>> THEN "free"
             ELSE LET h == ChoiceTokens(a.ch)[1] IN
                  IF h \in {"bool", "int", "int+", "float", "float+"} THEN h
                  ELSE IF IsMulti(a.ch) THEN "multi" ELSE "one"
Variants(a) == LET ty == TypeOf(a)  tk == ChoiceTokens(a.ch)  n == Len(tk) IN
  CASE ty = "free"   -> <<"verif_a", "verif b", "7">>
    [] ty = "bool"   -> <<"false", "true", "1", "False", "0">>
    [] ty = "int"    -> <<"7", "-3", "12">>
    [] ty = "int+"   -> <<"7", "12", "3">>
    [] ty = "float"  -> <<"2.5", "-1e-3", "7">>
    [] ty = "float+" -> <<"2.5", "3e2", "7">>
    [] ty = "one"    -> tk
    [] ty = "multi"  -> <<tk[n], tk[1] \o "," \o tk[n], tk[n] \o " " \o tk[1]>>
Invalid(a) == LET ty == TypeOf(a)  tk == ChoiceTokens(a.ch) IN
  CASE ty = "bool"   -> "maybe"
    [] ty = "int"    -> "2.5"
    [] ty = "int+"   -> "-4"
    [] ty = "float"  -> "abc"
    [] ty = "float+" -> "-2.5"
    [] ty = "one"    -> "verif_nochoice"
    [] ty = "multi"  -> tk[1] \o ",verif_nochoice"
    [] OTHER         -> "verif_a"
\* multi-word values for bracketed choice lists: the undeclared word in every position, and an
\* all-declared value with a duplicate and repeated / mixed separators
WordVal(a, vi) == LET tk == ChoiceTokens(a.ch)  n == Len(tk)  bad == "verif_nochoice" IN
  CASE vi = -2 -> bad \o "," \o tk[n]                                   \* bad word first, valid last
    [] vi = -3 -> tk[1] \o " " \o bad \o " " \o tk[n]                    \* bad word in the middle
    [] vi = -4 -> tk[1] \o "," \o tk[n] \o ", " \o bad                   \* bad word last
    [] vi = -5 -> tk[1] \o ",, " \o tk[1] \o " " \o tk[n]                 \* all declared: duplicate, repeated separators
    [] vi = -6 -> bad \o " " \o tk[1] \o "," \o tk[n]                    \* bad first of three
VarTab == [i \in CalcIdx |-> [r \in 1..Len(DeclOf[i].t) |-> Variants(DeclOf[i].t[r].a)]]
\* design-level check of the value tables against the literal classifiers
ASSUME \A i \in CalcIdx : \A r \in 1..Len(DeclOf[i].t) : DeclOf[i].k[r] = <<>> =>
          LET a == DeclOf[i].t[r].a IN
          /\ \A x \in 1..Len(VarTab[i][r]) : ValueClass(a, VarTab[i][r][x]) = "valid"
          /\ TypeOf(a) # "free" => ValueClass(a, Invalid(a)) = "invalid"

-----------------------------------------------------------------------------
\* ---- scenarios ----------------------------------------------------------------------
\* picks: set of [r, vi] (vi = 0: the invalid value); und: node that gets an undeclared child (0 none);
\* free: unchecked node that gets free keys (0 none); mult: set of [r, m] list-tag multiplicities;
\* fill: supply the REQUIRED options that become active
\* anc: a node that is written in any case (the list section of a "list" scenario)
\* ua: attributes the user writes on every node of his tree: "none", "note" (a harmless one), "unchecked"
\*     (plus the harmless one) - attributes of user nodes are no options and must not change the resolution;
\*     in particular a user cannot switch the name check off, only the description can
ScA(kind, picks, und, free, mult, fill, anc, ua) ==
  [kind |-> kind, picks |-> picks, und |-> und, free |-> free, mult |-> mult, fill |-> fill, anc |-> anc, ua |-> ua]
Sc(kind, picks, und, free, mult, fill, anc) == ScA(kind, picks, und, free, mult, fill, anc, "none")
Fills == IF BothFill THEN {TRUE, FALSE} ELSE {TRUE}

H(x) == (x * 75 + 74) % 65537
Rnd(i, k, j) == H(H(H(Seed + 131 * i) + 31 * k) + 7 * j)

SampleSc(i, k) ==
  LET D == DeclOf[i]  ls == LeafSeq[i]  nl == Len(ls)
      np == 1 + (Rnd(i, k, 1) % 3)
      leafAt(j) == ls[1 + (Rnd(i, k, 1 + j) % nl)]
      rs == {leafAt(j) : j \in 1..np}
      jOf(r) == MinOf({j \in 1..np : leafAt(j) = r})
      vi(r) == IF TypeOf(D.t[r].a) # "free" /\ Rnd(i, k, 10 + jOf(r)) % 8 = 0 THEN 0 ELSE 1 + (Rnd(i, k, 20 + jOf(r)) % 3)
      picks == {[r |-> r, vi |-> vi(r)] : r \in rs}
      und == IF Rnd(i, k, 30) % 8 = 0 THEN NodeSeq[i][1 + (Rnd(i, k, 31) % Len(NodeSeq[i]))] ELSE 0
      free == IF Unchecked[i] # {} /\ Rnd(i, k, 32) % 6 = 0 THEN MinOf(Unchecked[i]) ELSE 0
      above(t) == \E r \in rs \cup {und, free} : t <= r /\ r <= D.e[t]
      mult == {[r |-> t, m |-> IF above(t) THEN 1 + (Rnd(i, k, 40 + t) % 2) ELSE (IF Rnd(i, k, 40 + t) % 5 = 0 THEN 1 ELSE 0)] : t \in ListTags[i]}
  IN Sc("sample", picks, und, free, mult, Rnd(i, k, 50) % 4 # 0, 0)

MultVectors(i, s) == LET ks == {DeclOf[i].k[s][x] : x \in 1..Len(DeclOf[i].k[s])} IN
  {{[r |-> t, m |-> f[t]] : t \in ks} : f \in [ks -> 0..2]}

Scenarios(i) ==
  LET D == DeclOf[i]  ls == LeafSeq[i] IN
  {Sc("empty", {}, 0, 0, {}, f, 0) : f \in {TRUE, FALSE}}
  \cup {Sc("single", {[r |-> ls[x], vi |-> v]}, 0, 0, {}, f, 0) :
           x \in 1..Len(ls), v \in 1..NVar, f \in Fills}
  \cup {Sc("invalid", {[r |-> ls[x], vi |-> 0]}, 0, 0, {}, TRUE, 0) :
           x \in {y \in 1..Len(ls) : TypeOf(D.t[ls[y]].a) # "free"}}
  \cup {Sc("undecl", {}, NodeSeq[i][x], 0, {}, TRUE, 0) : x \in 1..Len(NodeSeq[i])}
  \cup {Sc("free", {}, 0, r, {}, TRUE, 0) : r \in Unchecked[i]}
  \cup UNION {{Sc("list", {}, 0, 0, mv, f, s) : mv \in MultVectors(i, s), f \in {TRUE, FALSE}} : s \in ListSecs[i]}
  \cup {SampleSc(i, k) : k \in 1..NSample}
  \* ---- extension round: attributes on user nodes, empty values, long lists ----
  \cup {ScA("uattr", {}, NodeSeq[i][x], 0, {}, TRUE, 0, "unchecked") : x \in {y \in 1..Len(NodeSeq[i]) : y % Thin = 1 % Thin}}
  \cup {ScA("battr", {[r |-> ls[x], vi |-> 1]}, 0, 0, {}, TRUE, 0, "note") : x \in {y \in 1..Len(ls) : y % Thin = 2 % Thin}}
  \cup {Sc("emptyval", {[r |-> ls[x], vi |-> -1]}, 0, 0, {}, TRUE, 0) : x \in {y \in 1..Len(ls) : y % Thin = 0}}
  \cup {Sc("multiword", {[r |-> ls[x], vi |-> v]}, 0, 0, {}, TRUE, 0) :
           x \in {y \in 1..Len(ls) : TypeOf(D.t[ls[y]].a) = "multi"}, v \in {-2, -3, -4, -5, -6}}
  \cup {Sc("biglist", {}, 0, 0, {[r |-> D.k[s][1], m |-> BigMult]}, TRUE, s) : s \in ListSecs[i]}

-----------------------------------------------------------------------------
\* ---- user tree of a scenario ----------------------------------------------------------
U3(d, n, v) == [d |-> d, n |-> n, v |-> v]
FreeKids(d) == << U3(d, "verif_kw", "GUESS PMODEL"), U3(d, "verif_blk", ""), U3(d + 1, "maxcore", "3000"), U3(d, "verif_kw", "2") >>

UserTree(i, s) ==
  LET D == DeclOf[i]
      Picked(r) == \E q \in s.picks : q.r = r
      ViOf(r) == (CHOOSE q \in s.picks : q.r = r).vi
      Val(r, vi, occ) == IF vi = -1 THEN ""                  \* the empty value <x></x>
                         ELSE IF vi <= -2 THEN WordVal(D.t[r].a, vi)
                         ELSE IF vi = 0 THEN Invalid(D.t[r].a)
                         ELSE LET vs == VarTab[i][r] IN vs[1 + ((vi + occ - 2) % Len(vs))]
      Below(r) == \/ \E q \in s.picks : r < q.r /\ q.r <= D.e[r]
                  \/ (s.und > r /\ s.und <= D.e[r]) \/ (s.free > r /\ s.free <= D.e[r])
                  \/ (s.anc > r /\ s.anc <= D.e[r])
      MultOf(t) == IF \E q \in s.mult : q.r = t THEN (CHOOSE q \in s.mult : q.r = t).m
                   ELSE IF Picked(t) \/ Below(t) \/ s.und = t \/ s.free = t \/ s.anc = t THEN 1 ELSE 0
      RECURSIVE Gen(_, _, _, _)
      Gen(r, act, occ, must) ==
        LET nd == D.t[r]  kids == D.k[r]
            forced == act /\ s.fill /\ Kw(nd) = "REQUIRED"
            here == must \/ Picked(r) \/ Below(r) \/ s.und = r \/ s.free = r \/ s.anc = r \/ forced \/ r <= 2
            self == U3(nd.d, nd.n, IF kids # <<>> THEN ""
                                   ELSE IF Picked(r) THEN Val(r, ViOf(r), occ)
                                   ELSE IF forced THEN Val(r, 1, occ) ELSE "")
            sub == IF kids = <<>> THEN <<>>
                   ELSE Flatten([j \in 1..Len(kids) |->
                          IF nd.a.ls THEN Flatten([o \in 1..MultOf(kids[j]) |-> Gen(kids[j], TRUE, o, TRUE)])
                          ELSE Gen(kids[j], TRUE, occ, FALSE)])
            extra == (IF s.free = r THEN FreeKids(nd.d + 1) ELSE <<>>)
                     \o (IF s.und = r THEN << U3(nd.d + 1, "verif_undeclared", "1") >> ELSE <<>>)
        IN IF here THEN <<self>> \o sub \o extra ELSE <<>>
  IN Gen(1, TRUE, 1, TRUE)

-----------------------------------------------------------------------------
UserOutA(U, mode) ==
  IF mode = "none" THEN UserOut(U)
  ELSE [j \in 1..Len(U) |-> <<U[j].d, U[j].n, U[j].v,
                              IF mode = "unchecked" THEN [unchecked |-> "", note |-> "n"] ELSE [note |-> "n"]>>]
NoSc == Sc("init", {}, 0, 0, {}, FALSE, 0)
Init == c \in CalcIdx /\ sc = NoSc
Next == sc = NoSc /\ sc' \in Scenarios(c) /\ UNCHANGED c
Spec == Init /\ [][Next]_<<c, sc>>
Live == sc # NoSc

Check ==
  Live =>
  LET D == DeclOf[c]
      UT == UserTree(c, sc)
      R == Resolve(D, UT)
      small == Len(D.t) <= PropLimit
  IN /\ Assert(WellFormed(UT), "well-formed user tree")
     /\ Assert(R.nodes # <<>> /\ WellFormed(R.nodes), "well-formed result")
     /\ small => Assert(NothingInvented(D, UT, R), "nothing invented")
     /\ small => Assert(NothingLost(D, UT, R), "nothing lost")
     /\ small => Assert(DefaultsKept(D, R), "defaults kept")
     /\ small => Assert(Idempotent(D, R), "idempotent")
     \* the scenario kinds produce what they are meant to produce (non-vacuity of the generator)
     /\ Assert(sc.kind = "invalid" => \E x \in R.errs : x.e = "choice", "invalid value is an error")
     /\ Assert(sc.kind = "undecl" => (\E x \in R.errs : x.e = "undeclared") \/ D.t[sc.und].a.un, "undeclared name is an error")
     /\ Assert(sc.kind = "free" => ~\E x \in R.errs : x.e = "undeclared", "free keys are accepted")
     /\ Assert(sc.kind = "single" /\ sc.fill => ~\E x \in R.errs : x.e \in {"undeclared", "choice"} /\ x.n = D.t[(CHOOSE q \in sc.picks : TRUE).r].n,
               "a valid single leaf is accepted")
     /\ Assert(sc.kind = "list" => \E j \in 1..Len(UT) : UT[j].n = D.t[sc.anc].n, "the list section is written")
     /\ Assert(sc.kind = "uattr" => (\E x \in R.errs : x.e = "undeclared") \/ D.t[sc.und].a.un, "user attributes do not switch the name check off")
     /\ Assert(sc.kind = "biglist" => Cardinality({j \in 1..Len(R.nodes) : R.nodes[j].n = D.t[D.k[sc.anc][1]].n /\ R.nodes[j].d = D.t[sc.anc].d + 1}) = BigMult,
               "one instance per occurrence")
     /\ Assert(sc.kind = "multiword" => LET q == CHOOSE x \in sc.picks : TRUE IN
                  (\E e \in R.errs : e.e = "choice" /\ e.n = D.t[q.r].n) <=> q.vi # -5, "a multi-word value is valid iff every word is declared")
     /\ Assert(sc.kind = "emptyval" => \E j \in 1..Len(UT) : IsLeaf(UT, j) /\ UT[j].v = "" /\ UT[j].d >= 2, "an empty value is written")
     /\ (Emit => PrintT(ToJson([calc |-> All[c].file, kind |-> sc.kind, fill |-> sc.fill,
                                user |-> UserOutA(UT, sc.ua), exp |-> ResOut(R)])))

\* per calculator: what CalculatorOptions must show (printed once, in the first step)
CalcVector == (Emit /\ ~Live) =>
   PrintT(ToJson([calc |-> All[c].file, kind |-> "calcopts",
                  copt |-> LET co == CalcOptions(DeclOf[c]) IN [i \in 1..Len(co) |-> <<co[i].d, co[i].n, co[i].v, co[i].a, co[i].leaf>>]]))
=============================================================================
