---- MODULE MCSessThorough ----
EXTENDS OptSession
MCExtras == {{}, {"q"}, {"q", "-5"}, {"x"}}
====
