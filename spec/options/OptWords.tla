------------------------------ MODULE OptWords ------------------------------
(* Values with internal structure: every position of a multi-word value must be
   checked, not only the first or the last word.
   Description:  options > t > m  default=x choices="[x,y,z]"   (bracketed: any subset)
                             > o  default=x choices="x,y,z"     (one of)
                             > p  default=x choices="[x y z]"   (bracketed, blank separated)
   User values: ALL word sequences of length 0..MaxWords over Words (declared choices
   and one undeclared word "q"), joined in every separator style of Styles (comma, blank,
   comma+blank, repeated comma, mixed, with a leading / trailing separator).
   Meaning (Options.ValueClass): bracketed -> valid iff EVERY word is declared (duplicates
   allowed, the empty selection left open); one-of -> valid iff the trimmed value IS one
   declared word.                                                                    *)
EXTENDS Options, TLC, Json

CONSTANTS Words, MaxWords, Styles, Emit
VARIABLES leaf, w          \* w: [ws: sequence of words, st: style] or the initial marker

N(d, n, v, a) == [d |-> d, n |-> n, v |-> v, a |-> a]
Ch3(def, ch) == [NoAttr EXCEPT !.hd = TRUE, !.df = def, !.hc = TRUE, !.ch = ch]
Desc == << N(0, "options", "", NoAttr), N(1, "t", "", NoAttr),
           N(2, "m", "", Ch3("x", "[x,y,z]")), N(2, "o", "", Ch3("x", "x,y,z")), N(2, "p", "", Ch3("x", "[x y z]")) >>
D0 == Decl(Desc)
Declared == {"x", "y", "z"}

Sep(st, k) == CASE st = "comma" -> "," [] st = "blank" -> " " [] st = "commablank" -> ", "
                [] st = "commas" -> ",," [] st = "mixed" -> (IF k % 2 = 1 THEN "," ELSE " ")
                [] st = "lead" -> "," [] st = "trail" -> " "
RECURSIVE JoinW(_, _, _)
JoinW(ws, st, k) == IF ws = <<>> THEN "" ELSE IF Len(ws) = 1 THEN ws[1] ELSE ws[1] \o Sep(st, k) \o JoinW(Tail(ws), st, k + 1)
Value(ww) == (IF ww.st = "lead" THEN ", " ELSE "") \o JoinW(ww.ws, ww.st, 1) \o (IF ww.st = "trail" THEN " ," ELSE "")
Seqs == UNION {[1..k -> Words] : k \in 0..MaxWords}
Cases == {[ws |-> s, st |-> st] : s \in Seqs, st \in Styles}

NoW == [ws |-> <<>>, st |-> "init"]
Init == leaf \in {"m", "o", "p"} /\ w = NoW
Next == w = NoW /\ w' \in {c \in Cases : Len(c.ws) <= 1 => c.st \in {"comma", "lead", "trail"}} /\ UNCHANGED leaf
Spec == Init /\ [][Next]_<<leaf, w>>
Live == w # NoW

U3(d, n, v) == [d |-> d, n |-> n, v |-> v]
UT == << U3(0, "options", ""), U3(1, "t", ""), U3(2, leaf, Value(w)) >>
BadPos == {k \in 1..Len(w.ws) : w.ws[k] \notin Declared}
Check ==
  Live =>
  LET R == Resolve(D0, UT)
      rejected == \E e \in R.errs : e.e = "choice" /\ e.n = leaf
      open == \E e \in R.maybe : e.e = "choice" /\ e.n = leaf
  IN \* the declarative reading, independent of how ValueClass tokenises
     /\ Assert(leaf \in {"m", "p"} /\ w.ws # <<>> => (rejected <=> BadPos # {}) /\ ~open, "bracketed: valid iff every word is declared")
     /\ Assert(leaf \in {"m", "p"} /\ w.ws = <<>> => open /\ ~rejected, "bracketed: the empty selection is left open")
     /\ Assert(leaf = "o" /\ Len(w.ws) = 1 /\ w.st = "comma" => (rejected <=> BadPos # {}), "one-of: a single declared word")
     /\ Assert(leaf = "o" /\ Len(w.ws) >= 2 => rejected, "one-of: several words are not one choice")
     /\ (Emit => PrintT(ToJson([leaf |-> leaf, words |-> w.ws, style |-> w.st, badpos |-> BadPos,
                                user |-> UserOut(UT), exp |-> ResOut(R)])))
DescVector == (Emit /\ ~Live /\ leaf = "m") => PrintT(ToJson([desc |-> [i \in 1..Len(Desc) |-> <<Desc[i].d, Desc[i].n, Desc[i].v, Desc[i].a>>]]))
=============================================================================
