---- MODULE MCShipQuick ----
EXTENDS OptShipped
EnvSeed == atoi(IOEnv.C11_SEED) % 60000
====
