---- MODULE MCShipThorough ----
EXTENDS OptShipped
EnvSeed == atoi(IOEnv.C11_SEED) % 60000
====
