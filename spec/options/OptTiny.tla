------------------------------ MODULE OptTiny ------------------------------
(* Input source (i): every tiny calculator description of the family below times
   every user tree over the same names - exhaustive.  One initial state per pair;
   TLC checks the theorems of Options on it and exports {description, user tree,
   expected resolution, expected CalculatorOptions} for replay.

   Shape (options = depth 0):
       options > t > a            leaf of kind ak
                   > s            section of kind sk
                       > c        leaf of kind ck, or (ck = "sec:<kind>") an element
                                  section holding the leaf e of that kind
                       > d        leaf of kind dk ("-" : not declared)
   sk "link"/"linkreq" pull in subpackages/p.xml (root default=OPTIONAL, leaf f, node
   g linking q.xml whose root is OPTIONAL with a REQUIRED leaf h): nested links and
   the do-not-overwrite rule for attributes.  sk "unc" declares s as a childless
   unchecked node (as the shipped <orca unchecked=""/>).
   List sections always carry OPTIONAL or REQUIRED (as all shipped ones do); what
   happens to the element templates of a list section that is neither and is not
   supplied is not documented and not exercised.                                 *)
EXTENDS Options, TLC, Json

CONSTANTS AKinds, SKinds, CKinds, DKinds, Vals, MaxMult, Emit
VARIABLES p, u        \* p: description parameters, u: user tree parameters

LeafAttr(kind) ==
  CASE kind = "none"   -> NoAttr
    [] kind = "def"    -> [NoAttr EXCEPT !.hd = TRUE, !.df = "1"]
    [] kind = "empty"  -> [NoAttr EXCEPT !.hd = TRUE, !.df = ""]
    [] kind = "opt"    -> [NoAttr EXCEPT !.hd = TRUE, !.df = "OPTIONAL"]
    [] kind = "req"    -> [NoAttr EXCEPT !.hd = TRUE, !.df = "REQUIRED"]
    [] kind = "int+"   -> [NoAttr EXCEPT !.hd = TRUE, !.df = "2", !.hc = TRUE, !.ch = "int+"]
    [] kind = "int"    -> [NoAttr EXCEPT !.hd = TRUE, !.df = "-2", !.hc = TRUE, !.ch = "int"]
    [] kind = "bool"   -> [NoAttr EXCEPT !.hd = TRUE, !.df = "true", !.hc = TRUE, !.ch = "bool"]
    [] kind = "float"  -> [NoAttr EXCEPT !.hd = TRUE, !.df = "0.5", !.hc = TRUE, !.ch = "float"]
    [] kind = "float+" -> [NoAttr EXCEPT !.hd = TRUE, !.df = "1e-3", !.hc = TRUE, !.ch = "float+"]
    [] kind = "one"    -> [NoAttr EXCEPT !.hd = TRUE, !.df = "x", !.hc = TRUE, !.ch = "x,y"]
    [] kind = "multi"  -> [NoAttr EXCEPT !.hd = TRUE, !.df = "x", !.hc = TRUE, !.ch = "[x,y, 1]"]
    [] kind = "optint" -> [NoAttr EXCEPT !.hd = TRUE, !.df = "OPTIONAL", !.hc = TRUE, !.ch = "int"]
    [] kind = "reqone" -> [NoAttr EXCEPT !.hd = TRUE, !.df = "REQUIRED", !.hc = TRUE, !.ch = "x y"]
    [] kind = "bad"    -> [NoAttr EXCEPT !.hd = TRUE, !.df = "q", !.hc = TRUE, !.ch = "x,y"]
SecAttr(kind) ==
  CASE kind = "plain"   -> NoAttr
    [] kind = "opt"     -> [NoAttr EXCEPT !.hd = TRUE, !.df = "OPTIONAL"]
    [] kind = "req"     -> [NoAttr EXCEPT !.hd = TRUE, !.df = "REQUIRED"]
    [] kind = "listopt" -> [NoAttr EXCEPT !.hd = TRUE, !.df = "OPTIONAL", !.ls = TRUE]
    [] kind = "listreq" -> [NoAttr EXCEPT !.hd = TRUE, !.df = "REQUIRED", !.ls = TRUE]
    [] kind = "link"    -> [NoAttr EXCEPT !.hl = TRUE, !.ln = "p.xml"]
    [] kind = "linkreq" -> [NoAttr EXCEPT !.hd = TRUE, !.df = "REQUIRED", !.hl = TRUE, !.ln = "p.xml"]
    [] kind = "unc"     -> [NoAttr EXCEPT !.un = TRUE]
IsSecKind(ck) == Len(ck) > 4 /\ SubSeq(ck, 1, 4) = "sec:"
ElemKind(ck) == Rest(ck, 5)
IsList(sk) == sk \in {"listopt", "listreq"}
IsLink(sk) == sk \in {"link", "linkreq"}

N(d, n, v, a) == [d |-> d, n |-> n, v |-> v, a |-> a]
Pkgs == << [file |-> "p.xml", t |-> << N(0, "p", "", [NoAttr EXCEPT !.hd = TRUE, !.df = "OPTIONAL", !.ls = FALSE]),
                                       N(1, "f", "", [NoAttr EXCEPT !.hd = TRUE, !.df = "5", !.hc = TRUE, !.ch = "int"]),
                                       N(1, "g", "", [NoAttr EXCEPT !.hl = TRUE, !.ln = "q.xml", !.hc = FALSE]) >>],
           [file |-> "q.xml", t |-> << N(0, "q", "", [NoAttr EXCEPT !.hd = TRUE, !.df = "OPTIONAL"]),
                                       N(1, "h", "", [NoAttr EXCEPT !.hd = TRUE, !.df = "REQUIRED"]) >>] >>

Desc(pp) ==
  << N(0, "options", "", NoAttr), N(1, "t", "", NoAttr), N(2, "a", "", LeafAttr(pp.ak)) >>
  \o IF pp.sk = "unc" THEN << N(2, "s", "", SecAttr("unc")) >>
     ELSE << N(2, "s", "", SecAttr(pp.sk)) >>
          \o (IF IsSecKind(pp.ck) THEN << N(3, "c", "", NoAttr), N(4, "e", "", LeafAttr(ElemKind(pp.ck))) >>
              ELSE << N(3, "c", "", LeafAttr(pp.ck)) >>)
          \o (IF pp.dk = "-" THEN <<>> ELSE << N(3, "d", "", LeafAttr(pp.dk)) >>)

Params == {pp \in [ak : AKinds, sk : SKinds, ck : CKinds, dk : DKinds] :
              pp.sk = "unc" => pp.ck = "def" /\ pp.dk = "-"}      \* c, d are not declared below an unchecked s

\* ---- user trees -----------------------------------------------------------------
Opt(S) == {<<>>} \cup {<<x>> : x \in S}
UpTo(S, n) == UNION {[1..k -> S] : k \in 0..n}
\* one instance of c: its value (leaf) or the optional value of e (element section)
CInst(pp) == IF IsSecKind(pp.ck) THEN Opt(Vals) ELSE {<<x>> : x \in Vals}
UserParams(pp) ==
  {[a |-> <<>>, s |-> FALSE, cs |-> <<>>, ds |-> <<>>, f |-> <<>>, g |-> 0, z |-> "none"]} \cup
  {uu \in [a : Opt(Vals), s : {FALSE, TRUE},
           cs : UpTo(CInst(pp), IF IsList(pp.sk) THEN MaxMult ELSE 1),
           ds : UpTo(Vals, IF pp.dk = "-" THEN 0 ELSE IF IsList(pp.sk) THEN MaxMult ELSE 1),
           f : IF IsLink(pp.sk) THEN Opt(Vals) ELSE {<<>>},
           g : IF IsLink(pp.sk) THEN 0..2 ELSE {0},       \* 0 absent, 1 <g/>, 2 <g><h>..</h></g>
           z : {"none", "top", "ins", "inc"}] :
      /\ (~uu.s => uu.cs = <<>> /\ uu.ds = <<>> /\ uu.f = <<>> /\ uu.g = 0 /\ uu.z \in {"none", "top"})
      /\ (uu.z = "inc" => Len(uu.cs) >= 1)
      /\ (pp.sk = "unc" => uu.ds = <<>>)
      \* bounds: the undeclared name inside s, and the linked options f/g, are combined with small c/d parts only
      /\ (uu.z \in {"ins", "inc"} => uu.ds = <<>> /\ uu.f = <<>> /\ uu.g = 0)
      /\ (uu.f # <<>> \/ uu.g # 0 => uu.ds = <<>> /\ Len(uu.cs) <= 1)}

U3(d, n, v) == [d |-> d, n |-> n, v |-> v]
Zed(d) == << U3(d, "z", "9") >>
User(pp, uu) ==
  << U3(0, "options", ""), U3(1, "t", "") >>
  \o (IF uu.a = <<>> THEN <<>> ELSE << U3(2, "a", uu.a[1]) >>)
  \o (IF ~uu.s THEN <<>>
      ELSE << U3(2, "s", "") >>
           \o Flatten([k \in 1..Len(uu.cs) |->
                 (IF IsSecKind(pp.ck)
                  THEN << U3(3, "c", "") >> \o (IF uu.cs[k] = <<>> THEN <<>> ELSE << U3(4, "e", uu.cs[k][1]) >>)
                  ELSE << U3(3, "c", uu.cs[k][1]) >>)
                 \o (IF k = 1 /\ uu.z = "inc" THEN Zed(4) ELSE <<>>)])
           \o [k \in 1..Len(uu.ds) |-> U3(3, "d", uu.ds[k])]
           \o (IF uu.f = <<>> THEN <<>> ELSE << U3(3, "f", uu.f[1]) >>)
           \o (IF uu.g = 0 THEN <<>> ELSE << U3(3, "g", "") >> \o (IF uu.g = 2 THEN << U3(4, "h", "7") >> ELSE <<>>))
           \o (IF uu.z = "ins" THEN Zed(3) ELSE <<>>))
  \o (IF uu.z = "top" THEN Zed(2) ELSE <<>>)

\* two steps so that TLC's workers share the user trees of one description (initial
\* states are generated by a single thread)
NoUser == [a |-> <<>>, s |-> FALSE, cs |-> <<>>, ds |-> <<>>, f |-> <<>>, g |-> 0, z |-> "init"]
Init == p \in Params /\ u = NoUser
Next == u = NoUser /\ u' \in UserParams(p) /\ UNCHANGED p
Spec == Init /\ [][Next]_<<p, u>>
Live == u # NoUser

DescOut(t) == [i \in 1..Len(t) |-> <<t[i].d, t[i].n, t[i].v, t[i].a>>]
\* One invariant so that the declared tree and the resolution are evaluated once per state
\* (TLC caches LET definitions, not state-level operators).
Check ==
  Live =>
  LET D == Decl(ResolveLinks(Desc(p), Pkgs))
      UT == User(p, u)
      R == Resolve(D, UT)
  IN /\ Assert(WellFormed(D.t) /\ WellFormed(UT) /\ (R.nodes # <<>> => WellFormed(R.nodes)), "well-formed trees")
     /\ Assert(\A i \in 1..Len(D.t) : ~D.t[i].a.hl, "all links resolved")
     /\ Assert(NothingInvented(D, UT, R), "nothing invented")
     /\ Assert(NothingLost(D, UT, R), "nothing lost")
     /\ Assert(DefaultsKept(D, R), "defaults kept")
     /\ Assert(Idempotent(D, R), "idempotent")
     \* the error classes are what their definition says (sanity of the spec itself)
     /\ Assert((\E x \in R.errs : x.e = "undeclared") <=>
                  (u.z = "top" \/ (u.z = "ins" /\ p.sk # "unc") \/ (u.z = "inc" /\ p.sk # "unc")), "undeclared iff z")
     /\ Assert((\E x \in R.errs : x.e = "required" /\ x.n = "a") <=> (p.ak \in {"req", "reqone"} /\ u.a = <<>>), "required a")
     /\ (Emit => PrintT(ToJson([p |-> p, user |-> UserOut(UT), exp |-> ResOut(R)])))

\* once per description (first step): the description itself and what CalculatorOptions must show
DescVector == (Emit /\ ~Live) =>
  LET D == Decl(ResolveLinks(Desc(p), Pkgs)) IN
  PrintT(ToJson([p |-> p, desc |-> DescOut(Desc(p)),
                 pkgs |-> [k \in 1..Len(Pkgs) |-> [file |-> Pkgs[k].file, t |-> DescOut(Pkgs[k].t)]],
                 copt |-> LET co == CalcOptions(D) IN [i \in 1..Len(co) |-> <<co[i].d, co[i].n, co[i].v, co[i].a, co[i].leaf>>]]))
=============================================================================
