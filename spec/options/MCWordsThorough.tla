---- MODULE MCWordsThorough ----
EXTENDS OptWords
====
