------------------------------ MODULE Options ------------------------------
(* Declarative meaning of votca::tools::OptionsHandler (property C11).

   A calculator DESCRIPTION is a flat pre-order tree (FlatTree) of nodes
        [d, n, v, a]     a = [hd, df : default attribute present / its text
                              hc, ch : choices attribute
                              hl, ln : link attribute (file names under subpackages/)
                              ls     : list attribute present
                              un     : unchecked attribute present]
   A USER tree is a flat tree of [d, n, v].  The documented resolution
   (optionshandler.h, the table header written by extract_xml_metadata.py, the
   statement of C11) is stated per declared node, top down:

     links are resolved first: children of the linked package are appended, the
       package root's attributes are added but never overwrite existing ones;
     a declared node the user supplied      -> present; a leaf carries the user's value
     not supplied, default="OPTIONAL"       -> absent (with everything below it)
     not supplied, default="REQUIRED"       -> error naming it
     not supplied otherwise                 -> present; a leaf carries its default
     a "list" section the user supplied     -> per declared element tag one instance for
                                               every user occurrence (in the user's order), none if none
     an "unchecked" node the user supplied  -> additionally the user's children, copied
     a user name that is not declared (outside unchecked nodes) -> error naming it
     a leaf with "choices" whose value is outside the type/choices -> error naming it

   Resolve returns [nodes, errs, maybe]: the resolved tree (nodes [d,n,v,k], k the
   provenance u/d/t/s/c), the set of definite errors and the set of errors that the
   documentation leaves open (three-valued literals, see Literals).  An
   implementation conforms iff it returns `nodes` when errs = {} (or, when maybe is
   not empty, one of the maybe errors) and otherwise fails naming one of
   errs \cup maybe.                                                               *)
EXTENDS FlatTree

NoAttr == [hd |-> FALSE, df |-> "", hc |-> FALSE, ch |-> "", hl |-> FALSE, ln |-> "", ls |-> FALSE, un |-> FALSE]
Keywords == {"OPTIONAL", "REQUIRED"}
Kw(nd) == IF nd.a.hd /\ nd.a.df \in Keywords THEN nd.a.df ELSE ""
Seps == {" ", ","}

-----------------------------------------------------------------------------
\* ---- links ------------------------------------------------------------------
\* pkgs: sequence of [file, t]; t the package tree (its root has depth 0)
PkgTree(pkgs, file) == pkgs[CHOOSE k \in 1..Len(pkgs) : pkgs[k].file = file].t
KnownPkg(pkgs, file) == \E k \in 1..Len(pkgs) : pkgs[k].file = file
\* attributes of `a` win; attributes only `b` has are added ("already existing tags are not overwritten")
MergeAttr(a, b) == [hd |-> a.hd \/ b.hd, df |-> IF a.hd THEN a.df ELSE b.df,
                    hc |-> a.hc \/ b.hc, ch |-> IF a.hc THEN a.ch ELSE b.ch,
                    hl |-> a.hl, ln |-> a.ln,
                    ls |-> a.ls \/ b.ls, un |-> a.un \/ b.un]

RECURSIVE ResolveLinks(_, _)
ResolveLinks(t, pkgs) ==
  LET open == {i \in 1..Len(t) : t[i].a.hl} IN
  IF open = {} THEN t
  ELSE LET i == MinOf(open)
           files == Tokens(t[i].a.ln, Seps)
           roots == [k \in 1..Len(files) |-> PkgTree(pkgs, files[k])]
           RECURSIVE Merge(_, _)
           Merge(a, k) == IF k > Len(files) THEN a ELSE Merge(MergeAttr(a, roots[k][1].a), k + 1)
           newa == [Merge(t[i].a, 1) EXCEPT !.hl = FALSE]
           adds == Flatten([k \in 1..Len(files) |-> Shift(Tail(roots[k]), t[i].d)])
       IN ResolveLinks(InsertAfter([t EXCEPT ![i].a = newa], SubEnd(t, i), adds), pkgs)

\* a declared tree with its child table (computed once per description)
\* x: the handler's additional choices (setAdditionalChoices: "bypass the choice evaluation"), empty by default
Decl(R) == [t |-> R, k |-> [i \in 1..Len(R) |-> Kids(R, i)], e |-> [i \in 1..Len(R) |-> SubEnd(R, i)], x |-> {}]
WithExtra(D, S) == [D EXCEPT !.x = S]
DLastNamed(D, m, name) == LET s == {j \in {D.k[m][x] : x \in 1..Len(D.k[m])} : D.t[j].n = name}
                          IN IF s = {} THEN 0 ELSE MaxOf(s)

\* what CalculatorOptions shows: links resolved, defaults injected as values of the leaves
CalcOptions(D) == [i \in 1..Len(D.t) |->
   LET nd == D.t[i] IN
   [d |-> nd.d, n |-> nd.n, a |-> nd.a, leaf |-> D.k[i] = <<>>,
    v |-> IF D.k[i] = <<>> /\ nd.a.hd /\ Kw(nd) = "" THEN nd.a.df ELSE nd.v]]

-----------------------------------------------------------------------------
\* ---- choices ----------------------------------------------------------------
ChoiceTokens(ch) ==
  LET inner == IF Contains(ch, "[")
               THEN LET s == IndexOf(ch, "[")
                        e == IF Contains(ch, "]") THEN IndexOf(ch, "]") ELSE Len(ch) + 1
                    IN IF e - 1 >= s + 1 THEN SubSeq(ch, s + 1, e - 1) ELSE ""
               ELSE ch
  IN Tokens(inner, Seps)
IsMulti(ch) == Contains(ch, "[")
\* "int+"/"float+": not negative.  Zero is a member (shipped defaults use it); "-0" is left open.
SignedClass(cls, sign, minus) == IF cls # "valid" THEN cls
                                 ELSE IF sign = 1 THEN "valid" ELSE IF sign = -1 THEN "invalid"
                                 ELSE IF minus THEN "unspec" ELSE "valid"
HasMinus(w) == LET s == Trim(w) IN Len(s) > 0 /\ Ch(s, 1) = "-"
\* class of value w for a node with attributes a
ValueClass(a, w) ==
  IF ~a.hc THEN "valid"
  ELSE LET toks == ChoiceTokens(a.ch) IN
       IF toks = <<>> THEN "valid"
       ELSE LET head == toks[1]  s == Trim(w) IN
            CASE head = "bool" -> BoolClass(w)
              [] head = "int" -> IntClass(w)
              [] head = "int+" -> SignedClass(IntClass(w), IF IntClass(w) = "valid" THEN IntSign(w) ELSE 0, HasMinus(w))
              [] head = "float" -> FloatClass(w)
              [] head = "float+" -> SignedClass(FloatClass(w), IF FloatClass(w) = "valid" THEN FloatSign(w) ELSE 0, HasMinus(w))
              [] OTHER ->
                   IF ~IsMulti(a.ch)
                   THEN (IF \E k \in 1..Len(toks) : toks[k] = s THEN "valid" ELSE "invalid")
                   ELSE LET ws == Tokens(s, Seps) IN
                        IF ws = <<>> THEN "unspec"          \* the empty selection
                        ELSE IF \A x \in 1..Len(ws) : \E k \in 1..Len(toks) : toks[k] = ws[x] THEN "valid" ELSE "invalid"

-----------------------------------------------------------------------------
\* ---- resolution ---------------------------------------------------------------
EmptyRes == [nodes |-> <<>>, errs |-> {}, maybe |-> {}]
Join(x, y) == [nodes |-> x.nodes \o y.nodes, errs |-> x.errs \cup y.errs, maybe |-> x.maybe \cup y.maybe]
RECURSIVE JoinAll(_)
JoinAll(ss) == IF ss = <<>> THEN EmptyRes ELSE Join(Head(ss), JoinAll(Tail(ss)))
ErrRec(kind, name, at) == [e |-> kind, n |-> name, at |-> at]

\* the user's children of node u, copied below a result node of depth dd (provenance "c")
Copies(U, u, dd) == LET ks == Kids(U, u) IN
  Flatten([x \in 1..Len(ks) |->
     LET s == Rebase(Sub(U, ks[x]), dd + 1) IN [y \in 1..Len(s) |-> [d |-> s[y].d, n |-> s[y].n, v |-> s[y].v, k |-> "c"]]])

RECURSIVE Inst(_, _, _, _)
\* D declared tree, U user tree, r declared node, u the user node supplying it (0: not supplied)
Inst(D, U, r, u) ==
  LET nd == D.t[r]  kids == D.k[r]  kw == Kw(nd)
      mk(val, kind) == [d |-> nd.d, n |-> nd.n, v |-> val, k |-> kind]
  IN
  IF u = 0 /\ kw = "OPTIONAL" THEN EmptyRes
  ELSE
  LET req == IF u = 0 /\ kw = "REQUIRED" THEN {ErrRec("required", nd.n, r)} ELSE {}
      copies == IF u # 0 /\ nd.a.un THEN Copies(U, u, nd.d) ELSE <<>>
  IN
  IF kids = <<>>
  THEN LET val == IF u # 0 THEN U[u].v ELSE IF nd.a.hd /\ kw = "" THEN nd.a.df ELSE nd.v
           kind == IF u # 0 THEN "u" ELSE IF nd.a.hd THEN "d" ELSE "t"
           cls == IF copies # <<>> \/ req # {} \/ Trim(val) \in D.x THEN "valid" ELSE ValueClass(nd.a, val)
           ce == {ErrRec("choice", nd.n, r)}
       IN [nodes |-> <<mk(val, kind)>> \o copies,
           errs |-> req \cup (IF cls = "invalid" THEN ce ELSE {}),
           maybe |-> IF cls = "unspec" THEN ce ELSE {}]
  ELSE LET parts == IF ~nd.a.ls \/ u = 0
                    THEN [j \in 1..Len(kids) |->
                            Inst(D, U, kids[j], IF u = 0 THEN 0 ELSE LastKidNamed(U, u, D.t[kids[j]].n))]
                    ELSE [j \in 1..Len(kids) |->
                            LET us == KidsNamed(U, u, D.t[kids[j]].n)
                            IN JoinAll([o \in 1..Len(us) |-> Inst(D, U, kids[j], us[o])])]
           sub == JoinAll(parts)
       IN [nodes |-> <<mk(IF u # 0 THEN U[u].v ELSE nd.v, "s")>> \o sub.nodes \o copies,
           errs |-> req \cup sub.errs, maybe |-> sub.maybe]

\* user node -> declared node; 0 undeclared (error), -1 free (inside unchecked), -2 below an undeclared node
Matching(D, U) ==
  LET m[c \in 1..Len(U)] ==
        IF U[c].d = 0 THEN (IF U[c].n = D.t[1].n THEN 1 ELSE 0)
        ELSE LET pm == m[Parent(U, c)] IN
             IF pm = 0 \/ pm = -2 THEN -2
             ELSE IF pm = -1 THEN -1
             ELSE IF D.t[pm].a.un THEN -1
             ELSE DLastNamed(D, pm, U[c].n)
  IN m

Resolve(D, U) ==
  LET m == Matching(D, U)
      und == {ErrRec("undeclared", U[c].n, c) : c \in {x \in 1..Len(U) : m[x] = 0}}
      inst == IF m[1] = 1 THEN Inst(D, U, 1, 1) ELSE EmptyRes
  IN [nodes |-> inst.nodes, errs |-> und \cup inst.errs, maybe |-> inst.maybe]

-----------------------------------------------------------------------------
\* ---- theorems checked by TLC on every (description, user tree) it enumerates -----
Strip(nodes) == [j \in 1..Len(nodes) |-> [d |-> nodes[j].d, n |-> nodes[j].n, v |-> nodes[j].v]]
DeclaredPath(D, p) == \E i \in 1..Len(D.t) : PathNames(D.t, i) = p
\* nothing invented: every resolved node is declared, or was copied below an unchecked declared node
NothingInvented(D, U, res) ==
  res.errs = {} =>
    \A j \in 1..Len(res.nodes) :
       IF res.nodes[j].k # "c" THEN DeclaredPath(D, PathNames(res.nodes, j))
       ELSE \E a \in 1..(j - 1) : /\ InSub(res.nodes, a, j) /\ res.nodes[a].k # "c"
                                  /\ \E i \in 1..Len(D.t) : PathNames(D.t, i) = PathNames(res.nodes, a) /\ D.t[i].a.un
\* nothing lost: every leaf the user wrote is in the result with the user's value (as many times as written)
NothingLost(D, U, res) ==
  res.errs = {} =>
    \A c \in 1..Len(U) : IsLeaf(U, c) =>
       LET same(t, x) == PathNames(t, x) = PathNames(U, c) /\ t[x].v = U[c].v
       IN Cardinality({x \in 1..Len(U) : IsLeaf(U, x) /\ same(U, x)})
            <= Cardinality({j \in 1..Len(res.nodes) : same(res.nodes, j)})
\* every declared leaf that is present and was not written by the user carries its default
DefaultsKept(D, res) ==
  res.errs = {} => \A j \in 1..Len(res.nodes) : res.nodes[j].k = "d" =>
     \E i \in 1..Len(D.t) : PathNames(D.t, i) = PathNames(res.nodes, j) /\ D.t[i].a.hd /\ D.t[i].a.df = res.nodes[j].v
\* resolution of its own output changes nothing
Idempotent(D, res) ==
  res.errs = {} => LET again == Resolve(D, Strip(res.nodes)) IN again.errs = {} /\ Strip(again.nodes) = Strip(res.nodes)

\* export form: nodes as tuples
NodesOut(nodes) == [j \in 1..Len(nodes) |-> <<nodes[j].d, nodes[j].n, nodes[j].v, nodes[j].k>>]
ErrsOut(errs) == {<<x.e, x.n>> : x \in errs}
ResOut(res) == [nodes |-> NodesOut(res.nodes), errs |-> ErrsOut(res.errs), maybe |-> ErrsOut(res.maybe)]
UserOut(U) == [j \in 1..Len(U) |-> <<U[j].d, U[j].n, U[j].v>>]
=============================================================================
