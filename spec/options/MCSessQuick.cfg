SPECIFICATION Spec
CONSTANTS
  Extras <- MCExtras
  AVals = {"q"}
  CVals = {"-5"}
  DVals = {"x"}
  OVals = {}
  Depth = 3
  Emit = TRUE
INVARIANTS BypassMonotone Leaf
CHECK_DEADLOCK FALSE
