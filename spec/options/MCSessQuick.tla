---- MODULE MCSessQuick ----
EXTENDS OptSession
MCExtras == {{}, {"q"}, {"q", "-5"}}
====
