----------------------------- MODULE OptSession -----------------------------
(* Mode H on ONE OptionsHandler object: the same handler is used again and again -
   ProcessUserInput after a call that failed, after a call with other input, after
   CalculatorOptions, and with setAdditionalChoices switched on and off in between
   ("Allows to bypass the choice evaluation", optionshandler.h).  The handler has no
   other state: every ProcessUserInput must answer as Resolve on (description, user
   tree, current additional choices) says, whatever happened before.
   Description (fixed):  options > t > a  default=x choices="x,y"
                                      > s > c  default=2 choices=int+
                                          > d  default=REQUIRED choices="[x,y]"
                                          > o  default=OPTIONAL choices=float          *)
EXTENDS Options, TLC, Json

CONSTANTS Extras, AVals, CVals, DVals, OVals, Depth, Emit
VARIABLES x, h           \* x: additional choices currently set, h: history of calls with expectations

N(d, n, v, a) == [d |-> d, n |-> n, v |-> v, a |-> a]
Desc == << N(0, "options", "", NoAttr), N(1, "t", "", NoAttr),
           N(2, "a", "", [NoAttr EXCEPT !.hd = TRUE, !.df = "x", !.hc = TRUE, !.ch = "x,y"]),
           N(2, "s", "", NoAttr),
           N(3, "c", "", [NoAttr EXCEPT !.hd = TRUE, !.df = "2", !.hc = TRUE, !.ch = "int+"]),
           N(3, "d", "", [NoAttr EXCEPT !.hd = TRUE, !.df = "REQUIRED", !.hc = TRUE, !.ch = "[x,y]"]),
           N(3, "o", "", [NoAttr EXCEPT !.hd = TRUE, !.df = "OPTIONAL", !.hc = TRUE, !.ch = "float"]) >>
D0 == Decl(Desc)

Opt(S) == {<<>>} \cup {<<v>> : v \in S}
U3(d, n, v) == [d |-> d, n |-> n, v |-> v]
Users == {<< U3(0, "options", ""), U3(1, "t", "") >>
          \o (IF ua = <<>> THEN <<>> ELSE << U3(2, "a", ua[1]) >>)
          \o (IF uc = <<>> /\ ud = <<>> /\ uo = <<>> THEN <<>>
              ELSE << U3(2, "s", "") >> \o (IF uc = <<>> THEN <<>> ELSE << U3(3, "c", uc[1]) >>)
                                        \o (IF ud = <<>> THEN <<>> ELSE << U3(3, "d", ud[1]) >>)
                                        \o (IF uo = <<>> THEN <<>> ELSE << U3(3, "o", uo[1]) >>))
          : ua \in Opt(AVals), uc \in Opt(CVals), ud \in Opt(DVals), uo \in Opt(OVals)}

Init == x = {} /\ h = <<>>
SetExtra == \E s \in Extras : s # x /\ x' = s /\ h' = Append(h, [op |-> "extra", list |-> s])
Process == \E u \in Users :
             /\ h' = Append(h, [op |-> "process", user |-> UserOut(u), exp |-> ResOut(Resolve(WithExtra(D0, x), u)), extra |-> x,
                                \* vacuity flag: the additional choices removed every error of this input
                                bypassed |-> Resolve(D0, u).errs # {} /\ Resolve(WithExtra(D0, x), u).errs = {}])
             /\ UNCHANGED x
CalcOpts == /\ h' = Append(h, [op |-> "calcopts",
                               copt |-> LET co == CalcOptions(D0) IN [i \in 1..Len(co) |-> <<co[i].d, co[i].n, co[i].v, co[i].a, co[i].leaf>>]])
            /\ UNCHANGED x
Next == Len(h) < Depth /\ (SetExtra \/ Process \/ CalcOpts)
Spec == Init /\ [][Next]_<<x, h>>

\* ---- design level: what the bypass may and may not do ----------------------------------
Last == h[Len(h)]
\* additional choices never turn an accepted input into a rejected one, never touch required/undeclared
\* errors, and the resolved tree does not depend on them
BypassMonotone == (h # <<>> /\ Last.op = "process") =>
   LET u == CHOOSE v \in Users : UserOut(v) = Last.user
       plain == Resolve(D0, u)  with == Resolve(WithExtra(D0, x), u) IN
   /\ with.errs \subseteq plain.errs
   /\ {e \in plain.errs : e.e # "choice"} \subseteq with.errs
   /\ with.nodes = plain.nodes
Leaf == (Emit /\ Len(h) = Depth) => PrintT(ToJson([h |-> h, desc |-> [i \in 1..Len(Desc) |-> <<Desc[i].d, Desc[i].n, Desc[i].v, Desc[i].a>>]]))
=============================================================================
