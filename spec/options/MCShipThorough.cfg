SPECIFICATION Spec
CONSTANTS
  NSample = 1500
  NVar = 3
  BothFill = TRUE
  Seed <- EnvSeed
  PropLimit = 40
  Thin = 1
  BigMult = 50
  Emit = TRUE
INVARIANTS Check CalcVector
CHECK_DEADLOCK FALSE
