SPECIFICATION Spec
CONSTANTS
  NSet = {2, 3, 4, 5}
  GapSet = {1, 2}
  YSeeds = {0, 1, 2, 3}
  OffSet <- MCOff
  Q = 8
  ThinLin = 600
  ThinIdent = 30
  ThinDov = 24
  ThinFit = 120
  ThinDec = 160
  LongN = {41, 61}
  Emit = TRUE
INVARIANTS Theorems Vector
CHECK_DEADLOCK FALSE
