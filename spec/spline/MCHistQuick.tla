---- MODULE MCHistQuick ----
EXTENDS SplineHist
\* same N / same grid, same N / other grid, other N; d1 and d3 are periodic data (y_1 = y_N)
MCData == << [k |-> <<0, 8, 16, 24>>, y |-> <<0, 3, -1, 0>>],
             [k |-> <<-8, 0, 16, 24>>, y |-> <<2, -2, 1, 3>>],
             [k |-> <<0, 8, 16, 24, 40>>, y |-> <<-1, 2, 0, 3, -1>>] >>
====
