----------------------------- MODULE SplineRel -----------------------------
(* Property C12, relational part.  A relation is a linear equation with INTEGER
   coefficients between observations of the real code,
        sum_j  coef_j * obs(inst_j, kind_j, r_j)  =  0 ,
   kind 0 = Calculate(r) * YD, kind 1 = CalculateDerivative(r) * YD / XD (lattice units),
   written as  [c |-> clause name, i |-> the instance it is about,
                t |-> << <<coef, inst, kind, r>>, ... >>].
   The spec only says WHICH observations are related and with which coefficients; both
   sides are produced by the code under test.  All relations below are exact
   identities for the function class named in the clause (piecewise polynomials of
   degree <= 3 evaluated inside ONE interval), not approximations:
     (deg+1)-th differences of a polynomial of degree deg vanish, and the one-sided
     difference formulas used are exact for cubics/quadratics.                      *)
EXTENDS Integers, Sequences, SplineLattice

Term(cf, s, kind, r) == <<cf, s, kind, r>>
Relation(c, s, terms) == [c |-> c, i |-> s, t |-> terms]

\* concatenation of a sequence of sequences; divide and conquer keeps the evaluation depth logarithmic
\* (grids with 200 knots)
RECURSIVE FlattenRange(_, _, _)
FlattenRange(ss, lo, hi) ==
  IF lo > hi THEN <<>>
  ELSE IF lo = hi THEN ss[lo]
  ELSE LET mid == (lo + hi) \div 2 IN FlattenRange(ss, lo, mid) \o FlattenRange(ss, mid + 1, hi)
Flatten(ss) == FlattenRange(ss, 1, Len(ss))
SeqOf(f, lo, hi) == [j \in 1..(hi - lo + 1) |-> f[lo + j - 1]]

DiffCoef(deg) == IF deg = 1 THEN <<1, -2, 1>>
                 ELSE IF deg = 2 THEN <<1, -3, 3, -1>>
                 ELSE <<1, -4, 6, -4, 1>>

\* quarter width of interval i (0-based); knots are multiples of Q >= 4, so it is an integer
Quarter(K, i) == Gap(K, i) \div 4

(* Continuity at the interior knot K[i] (1-based, 2 <= i <= N-1) of a function that is a
   polynomial of degree deg on each interval: the code evaluates r = K[i] with the
   polynomial of the RIGHT interval and K[i]-d .. K[i]-4d (d = quarter of the left
   interval; K[i]-4d = K[i-1] is evaluated with the left polynomial) with the LEFT one.
   The left polynomial extrapolated to K[i] is given by its vanishing (deg+1)-th
   difference, hence  sum_j (-1)^j C(deg+1,j) f(K[i] - j d) = 0  iff the two polynomials
   agree at the knot.                                                                  *)
KnotContinuity(c, s, kind, K, i, deg) ==
  LET d == Quarter(K, i - 2)
      cf == DiffCoef(deg)
  IN  Relation(c, s, [j \in 1..(deg + 2) |-> Term(cf[j], s, kind, K[i] - (j - 1) * d)])

(* S''(x_0) from values of S' (a quadratic on interval 0): q'(0) = (-3 q(0) + 4 q(d) - q(2d)) / (2d);
   from values of S (a cubic): f''(0) = (2 f(0) - 5 f(d) + 4 f(2d) - f(3d)) / d^2.  *)
CurvLowD(s, K) == LET d == Quarter(K, 0) IN
  <<Term(-3, s, 1, K[1]), Term(4, s, 1, K[1] + d), Term(-1, s, 1, K[1] + 2 * d)>>
CurvHighD(s, K) == LET N == Len(K) d == Quarter(K, N - 2) IN
  <<Term(3, s, 1, K[N]), Term(-4, s, 1, K[N] - d), Term(1, s, 1, K[N] - 2 * d)>>
CurvLowV(s, K) == LET d == Quarter(K, 0) IN
  <<Term(2, s, 0, K[1]), Term(-5, s, 0, K[1] + d), Term(4, s, 0, K[1] + 2 * d), Term(-1, s, 0, K[1] + 3 * d)>>
CurvHighV(s, K) == LET N == Len(K) d == Quarter(K, N - 2) IN
  <<Term(2, s, 0, K[N]), Term(-5, s, 0, K[N] - d), Term(4, s, 0, K[N] - 2 * d), Term(-1, s, 0, K[N] - 3 * d)>>

Scale(terms, m) == [j \in 1..Len(terms) |-> Term(m * terms[j][1], terms[j][2], terms[j][3], terms[j][4])]

\* natural boundaries: zero curvature at both ends
NaturalEnds(s, K) ==
  << Relation("end-curvature:low:from-derivative", s, CurvLowD(s, K)),
     Relation("end-curvature:high:from-derivative", s, CurvHighD(s, K)),
     Relation("end-curvature:low:from-value", s, CurvLowV(s, K)),
     Relation("end-curvature:high:from-value", s, CurvHighV(s, K)) >>

(* periodic boundaries: equal value and slope at the two ends; for the cubic spline
   also equal curvature:  (-3q0+4q1-q2)/(2 d0) = (3p0-4p1+p2)/(2 d1), cleared of fractions *)
PeriodicValue(s, K) == Relation("periodic-join:value", s, <<Term(1, s, 0, K[1]), Term(-1, s, 0, K[Len(K)])>>)
PeriodicSlope(s, K) == Relation("periodic-join:slope", s, <<Term(1, s, 1, K[1]), Term(-1, s, 1, K[Len(K)])>>)
PeriodicCurv(s, K) ==
  LET d0 == Quarter(K, 0)
      d1 == Quarter(K, Len(K) - 2)
  IN  Relation("periodic-join:curvature", s, Scale(CurvLowD(s, K), d1) \o Scale(CurvHighD(s, K), -d0))

(* derivative output = derivative of value output, inside interval i (0-based):
   cubic piece: f'(x) = (-11 f(x) + 18 f(x+d) - 9 f(x+2d) + 2 f(x+3d)) / (6d) at x = K[i+1]
                f'(x+3d) = (-2 f(x) + 9 f(x+d) - 18 f(x+2d) + 11 f(x+3d)) / (6d)
   linear piece: f'(x) = (f(x+d) - f(x)) / d                                           *)
DerivOfValue(s, K, i, deg) ==
  LET d == Quarter(K, i)
      x == K[i + 1]
  IN  IF deg = 1
      THEN << Relation("derivative-of-value", s,
                <<Term(-1, s, 0, x), Term(1, s, 0, x + d), Term(-d, s, 1, x)>>),
              Relation("derivative-of-value", s,
                <<Term(-1, s, 0, x + 2 * d), Term(1, s, 0, x + 3 * d), Term(-d, s, 1, x + 3 * d)>>) >>
      ELSE << Relation("derivative-of-value", s,
                <<Term(-11, s, 0, x), Term(18, s, 0, x + d), Term(-9, s, 0, x + 2 * d),
                  Term(2, s, 0, x + 3 * d), Term(-6 * d, s, 1, x)>>),
              Relation("derivative-of-value", s,
                <<Term(-2, s, 0, x), Term(9, s, 0, x + d), Term(-18, s, 0, x + 2 * d),
                  Term(11, s, 0, x + 3 * d), Term(-6 * d, s, 1, x + 3 * d)>>) >>

(* The same identities in the two EXTRAPOLATION regions.  Whatever continuation a spline type implements
   outside [x_1, x_N] (the code continues the outermost polynomial), Calculate and CalculateDerivative
   must describe the same function there.  Below the grid the points x_1 - 4d .. x_1 - d (d = quarter of
   the first interval), above it x_N + d .. x_N + 4d (d = quarter of the last interval); the 4-point
   formulas are exact for every polynomial continuation of degree <= 3 (so also for a linear one).      *)
DerivOfValueAt(c, s, x, d, deg) ==
  IF deg = 1
  THEN << Relation(c, s, <<Term(-1, s, 0, x), Term(1, s, 0, x + d), Term(-d, s, 1, x)>>),
          Relation(c, s, <<Term(-1, s, 0, x + 2 * d), Term(1, s, 0, x + 3 * d), Term(-d, s, 1, x + 3 * d)>>) >>
  ELSE << Relation(c, s, <<Term(-11, s, 0, x), Term(18, s, 0, x + d), Term(-9, s, 0, x + 2 * d),
                           Term(2, s, 0, x + 3 * d), Term(-6 * d, s, 1, x)>>),
          Relation(c, s, <<Term(-2, s, 0, x), Term(9, s, 0, x + d), Term(-18, s, 0, x + 2 * d),
                           Term(11, s, 0, x + 3 * d), Term(-6 * d, s, 1, x + 3 * d)>>),
          \* and the two inner points through the derivative's own 4-point (exact for quadratics) formula:
          \* q(x+d) and q(x+2d) from the cubic values: f'(x+d) = (-2 f0 - 3 f1 + 6 f2 - f3)/(6d)
          Relation(c, s, <<Term(-2, s, 0, x), Term(-3, s, 0, x + d), Term(6, s, 0, x + 2 * d),
                           Term(-1, s, 0, x + 3 * d), Term(-6 * d, s, 1, x + d)>>) >>
ExtrapRelations(s, K, deg) ==
  LET N == Len(K)  d0 == Quarter(K, 0)  d1 == Quarter(K, N - 2) IN
  DerivOfValueAt("derivative-of-value:below", s, K[1] - 4 * d0, d0, deg)
  \o DerivOfValueAt("derivative-of-value:above", s, K[N] + d1, d1, deg)

\* all single-instance relations of an interpolating spline of piece degree deg
\* (smooth = TRUE: also the first derivative is continuous: cubic, Akima)
PieceRelations(s, K, deg, smooth) ==
  LET N == Len(K) IN
  Flatten([i \in 1..(N - 1) |-> DerivOfValue(s, K, i - 1, deg)])
  \o [i \in 1..(N - 2) |-> KnotContinuity("knot-continuity:value", s, 0, K, i + 1, deg)]
  \o (IF smooth THEN [i \in 1..(N - 2) |-> KnotContinuity("knot-continuity:slope", s, 1, K, i + 1, deg - 1)]
      ELSE <<>>)

\* two instances agree (fit reproduces, ...) at the points P, values and derivatives
SameAt(c, s, ref, P) ==
  [j \in 1..(2 * Len(P)) |->
     LET r == P[(j + 1) \div 2]  kind == (j + 1) % 2
     IN Relation(c, s, <<Term(1, s, kind, r), Term(-1, ref, kind, r)>>)]

\* S[y1 + y2] = S[y1] + S[y2],  S[m y] = m S[y]
Additive(c, ssum, s1, s2, P) ==
  [j \in 1..(2 * Len(P)) |->
     LET r == P[(j + 1) \div 2]  kind == (j + 1) % 2
     IN Relation(c, ssum, <<Term(1, ssum, kind, r), Term(-1, s1, kind, r), Term(-1, s2, kind, r)>>)]
Homogeneous(c, sm, s1, m, P) ==
  [j \in 1..(2 * Len(P)) |->
     LET r == P[(j + 1) \div 2]  kind == (j + 1) % 2
     IN Relation(c, sm, <<Term(1, sm, kind, r), Term(-m, s1, kind, r)>>)]

(* Least-squares optimality through the normal equations.  S* is the least-squares optimum of the
   data (X, Yd) in a linear space V iff the residual is orthogonal to V:
        sum_j (Yd_j - S*(X_j)) B(X_j) = 0   for every B of a spanning set of V.
   The spanning set is produced by the real code as well (interpolating splines of the same type and
   boundary condition through unit ordinates on the fit grid).  The equation is bilinear in the
   observations; a bilinear term is <<coef, inst1, kind1, r1, inst2, kind2, r2>> meaning
   coef * obs1 * obs2 (inst2 = 0: coef * obs1).                                                     *)
BTerm(cf, s1, k1, r1, s2, k2, r2) == <<cf, s1, k1, r1, s2, k2, r2>>
NormalEquation(c, fit, basis, X, Yd) ==
  Relation(c, fit, Flatten([j \in 1..Len(X) |->
     << BTerm(Yd[j], basis, 0, X[j], 0, 0, 0), BTerm(-1, fit, 0, X[j], basis, 0, X[j]) >>]))
CompactBil(rels) == [j \in 1..Len(rels) |->
   <<rels[j].c, rels[j].i>> \o [l \in 1..(7 * Len(rels[j].t)) |-> rels[j].t[((l - 1) \div 7) + 1][((l - 1) % 7) + 1]]]

\* ---- compact JSON forms (flat integer lists keep the exported vectors small) ----------
\* a sequence of k-tuples as one flat sequence
FlatK(seq, k) == [j \in 1..(k * Len(seq)) |-> seq[((j - 1) \div k) + 1][((j - 1) % k) + 1]]
\* relation -> <<clause, inst, coef, inst, kind, r, coef, inst, kind, r, ...>>
CompactRels(rels) == [j \in 1..Len(rels) |-> <<rels[j].c, rels[j].i>> \o FlatK(rels[j].t, 4)]
\* exact expectations <<inst, kind, r, num, den>> -> flat
CompactExact(ex) == FlatK(ex, 5)

\* evaluation points: every quarter point of every interval (incl. all knots), ascending
QuarterPoints(K) ==
  Flatten([i \in 1..(Len(K) - 1) |-> [j \in 1..4 |-> K[i] + (j - 1) * Quarter(K, i - 1)]]) \o <<K[Len(K)]>>
\* two points below and two above the grid
OutsidePoints(K) == <<K[1] - 19, K[1] - 1, K[Len(K)] + 1, K[Len(K)] + 27>>
=============================================================================
