---- MODULE MCEvalQuick ----
EXTENDS SplineEval
MCN == {2, 3, 4, 5}
MCGaps(n) == IF n <= 3 THEN {1, 2, 3} ELSE IF n = 4 THEN {1, 3} ELSE {1, 2}
MCYs(n) == IF n <= 3 THEN {-3, -1, 0, 2} ELSE IF n = 4 THEN {-3, 0, 2} ELSE {-2, 3}
MCOff(n) == IF n <= 4 THEN {-3, 0} ELSE {0}
MCLong == {40}
====
