------------------------------ MODULE TableOps ------------------------------
(* Mode L, families "grid" and "smooth".
   grid    (mn, mx, h): number and position of the points of Spline::GenerateGrid and
           Table::GenerateGridSpacing, last point pinned to mx
   smooth  (Y, n): Table::Smooth(n) as the exact operator SmoothN (scaled by 4^n), followed by
           Table::Save / Table::Load which must return the same table (x, y, flags); with e = TRUE the
           table carries an error column (file lines "x y yerr flag"), which Smooth leaves alone and
           Save/Load must return as well - in particular the FLAGS of a 4-column table               *)
EXTENDS SplineLattice, TLC, Json

CONSTANTS MinSet, SpanSet, StepSet,            \* grid family
          LenSet, YsOf(_), PassSet, ZSeqs,      \* smooth family
          Emit
VARIABLES c, ph
vars == <<c, ph>>

Init == /\ ph = 0
        /\ \/ \E mn \in MinSet, sp \in SpanSet, h \in StepSet :
                /\ sp = 0 \/ sp >= h
                /\ c = [fam |-> "grid", mn |-> mn, mx |-> mn + sp, h |-> h]
           \/ \E l \in LenSet : \E y \in [1..l -> YsOf(l)], n \in PassSet, e \in BOOLEAN :
                c = [fam |-> "smooth", Y |-> y, n |-> n, e |-> e]
Next == ph = 0 /\ ph' = 1 /\ UNCHANGED c
Spec == Init /\ [][Next]_vars

FlagOf(i) == IF i % 3 = 0 THEN "i" ELSE IF i % 3 = 1 THEN "o" ELSE "u"

Theorems == ph = 1 =>
  /\ c.fam = "grid" => GridTheorems(c.mn, c.mx, c.h)
  /\ c.fam = "smooth" => \A z \in ZSeqs : SmoothTheorems(c.Y, z, c.n)

Vector == (Emit /\ ph = 1) =>
  PrintT(ToJson(
    IF c.fam = "grid"
    THEN [fam |-> "grid", mn |-> c.mn, mx |-> c.mx, h |-> c.h, n |-> GridCount(c.mn, c.mx, c.h),
          sg |-> SplineGrid(c.mn, c.mx, c.h), tg |-> TableGrid(c.mn, c.mx, c.h)]
    ELSE [fam |-> "smooth", y |-> c.Y, n |-> c.n, p |-> Pow4(c.n), s |-> SmoothN(c.Y, c.n),
          f |-> [i \in 1..Len(c.Y) |-> FlagOf(i + c.Y[1])],
          \* ordinate magnitude 2^ys (exact): Smooth is exact at every scale, Save/Load relative 1e-9
          ys |-> LET m == (c.Y[1] + 2 * c.Y[Len(c.Y)] + c.n + Len(c.Y)) % 4 IN
                 IF m = 1 THEN -40 ELSE IF m = 3 THEN 40 ELSE 0,
          \* error column in quarters (only when e): 1/4, 2/4, 0, 1/4, ...
          e |-> IF c.e THEN [i \in 1..Len(c.Y) |-> (i + c.n) % 3] ELSE <<>>]))
=============================================================================
