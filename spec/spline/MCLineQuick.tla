---- MODULE MCLineQuick ----
EXTENDS SplineLine
MCN == {2, 3, 4, 5}
MCGaps(n) == IF n <= 3 THEN {1, 2, 3} ELSE IF n = 4 THEN {1, 3} ELSE {1, 2}
MCOff == {-3, 0}
MCA == {-3, -1, 0, 2}
MCB == {-8, 0, 24}
====
