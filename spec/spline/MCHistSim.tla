---- MODULE MCHistSim ----
EXTENDS MCHistThorough
====
