---- MODULE MCResampleQuick ----
EXTENDS Resample
MCOff == {-2, 0}
====
