----------------------------- MODULE SplinePairs -----------------------------
(* Mode L, relational families that need several spline objects on one grid K:

   "linear"   instances S[y1], S[y2], S[y1+y2], S[m y1] (linear and cubic spline, natural;
              cubic periodic when both data sets are periodic):
              S[y1+y2] = S[y1] + S[y2],  S[m y1] = m S[y1]  for value and derivative at all
              quarter points and outside the grid.  The sums y1+y2 and m y1 are formed here.
   "fitspace" source = interpolating spline of (K, y1); its values on the quarter points are
              fitted (a) on the same grid K (GenerateGrid when K is uniform, getX() otherwise)
              and (b) on the refinement K + midpoints; a function that already lies in the
              spline space is reproduced: fit = source at quarter and eighth points.
   "fitopt"   FIT of arbitrary data (outside every spline space) given on the quarter points:
              a cubic fit with periodic boundaries joins its two ends with equal value, slope and
              curvature; fitted splines are smooth at the knots and natural ones have zero end
              curvature; a fit is linear in the ordinates; and the fit is the LEAST-SQUARES OPTIMUM:
              its residual is orthogonal to every cardinal spline of the fit grid (normal equations,
              cubic natural, cubic periodic and linear spline).
   "mirror"   REFLECTION SYMMETRY: for the data (x_i, y_i) and the mirrored data (-x_{N+1-i}, y_{N+1-i})
              every interpolant of the statement satisfies S_m(-x) = S(x), S_m'(-x) = -S'(x), also in the
              extrapolation regions; natural boundaries, lin/cubic/Akima Interpolate, lin/cubic Fit
              (mirrored data on the mirrored grid).  Mirroring is exact on the lattice.  The slope of
              the LINEAR spline is not compared at interior knots (it jumps there and the code reports
              the right-hand piece, which is the other piece after mirroring).
   "order"    A FIT DOES NOT DEPEND ON THE ORDER IN WHICH THE SAMPLES ARE LISTED: the fit data of "fitopt"
              listed ascending, descending, scrambled (stride 2) and as two ascending blocks (odd then
              even samples) give the same spline (lin, cubic natural, cubic periodic).
   "scale"    SCALE INVARIANCE with exact powers of two (multiplication by 2^k is exact in binary
              floating point, so the scaled computation is the same computation): an instance may carry
              an ordinate scale ys (y -> 2^ys y) or an abscissa scale xs (x -> 2^xs x); the harness feeds
              the scaled numbers and converts the observations back (S / 2^ys, S' 2^xs / 2^ys), so that
                  S[2^k y](x) = 2^k S[y](x),     S'[y; 2^m x](2^m x) = 2^-m S'[y](x)
              become "scaled instance = base instance", k in {-60,-40,40}, m in {-20,20,30}; the
              knot-continuity, derivative-of-value and extrapolation relations are evaluated on the
              scaled instances as well.  All types, Interpolate and Fit, natural and periodic.  (Akima's
              equality to the base instance is not asserted for k = -60: AkimaSpline::getSlope compares
              slopes with the absolute tolerance 1e-15, the statement does not claim homogeneity for
              Akima; its smoothness and derivative consistency are asserted for every scale.)
              `probe` lists the one-sided difference that gives f'' at the second knot of every scaled
              cubic instance: the harness requires some 0 < |f''| < 1e-12 among them (vacuity guard).   *)
EXTENDS SplineRel, TLC, Json, IOUtils

CONSTANTS NSet, GapsOf(_), YsOf(_), Y2Of(_), OffsOf(_), MulSet, ScaleThin, Q, Emit
VARIABLES c, ph
vars == <<c, ph>>

Slice == IF "C12_SLICE" \in DOMAIN IOEnv THEN atoi(IOEnv.C12_SLICE) ELSE 0
NSlices == IF "C12_NSLICES" \in DOMAIN IOEnv THEN atoi(IOEnv.C12_NSLICES) ELSE 1

RECURSIVE SumTo(_, _)
SumTo(f, n) == IF n = 0 THEN 0 ELSE f[n] + SumTo(f, n - 1)
Knots(o, g) == [i \in 1..(Len(g) + 1) |-> Q * (o + SumTo(g, i - 1))]
HashRaw(n, g, o, y) == SumTo([i \in 1..n |-> i * y[i]], n) + 3 * SumTo(g, n - 1) + o
Hash(n, g, o, y) == HashRaw(n, g, o, y) % NSlices
Hash2(n, g, y) == SumTo([i \in 1..n |-> (i * i + 1) * y[i]], n) + SumTo(g, n - 1)

Init == /\ ph = 0
        /\ \E n \in NSet : \E g \in [1..(n - 1) -> GapsOf(n)], o \in OffsOf(n), y \in [1..n -> YsOf(n)] :
              /\ Hash(n, g, o, y) = Slice
              /\ \/ \E z \in Y2Of(n), m \in MulSet : c = [fam |-> "linear", K |-> Knots(o, g), Y |-> y, Z |-> z, m |-> m]
                 \/ c = [fam |-> "fitspace", K |-> Knots(o, g), Y |-> y]
                 \/ n >= 3 /\ c = [fam |-> "fitopt", K |-> Knots(o, g), Y |-> y]
                 \/ n >= 3 /\ c = [fam |-> "mirror", K |-> Knots(o, g), Y |-> y]
                 \/ n >= 3 /\ c = [fam |-> "order", K |-> Knots(o, g), Y |-> y]
                 \* 1/ScaleThin of the data sets, each with one of the six scales
                 \/ /\ n >= 3 /\ Hash2(n, g, y) % ScaleThin = 0
                    /\ c = [fam |-> "scale", K |-> Knots(o, g), Y |-> y, v |-> ((Hash2(n, g, y) \div ScaleThin) % 6) + 1]
Next == ph = 0 /\ ph' = 1 /\ UNCHANGED c
Spec == Init /\ [][Next]_vars

K == c.K
Y == c.Y
N == Len(K)
Uniform == \A i \in 1..(N - 2) : Gap(K, i) = Gap(K, 0)
Eighths == [j \in 1..(8 * (N - 1) + 1) |->
              LET i == (j - 1) \div 8  IN IF i = N - 1 THEN K[N] ELSE K[i + 1] + ((j - 1) % 8) * (Gap(K, i) \div 8)]
AllPts == QuarterPoints(K) \o OutsidePoints(K)

\* ---- linearity ------------------------------------------------------------------------
Z == c.Z
Sum == [i \in 1..N |-> Y[i] + Z[i]]
Mul == [i \in 1..N |-> c.m * Y[i]]
LData == <<[k |-> K, y |-> Y], [k |-> K, y |-> Z], [k |-> K, y |-> Sum], [k |-> K, y |-> Mul]>>
BothPeriodic == Y[1] = Y[N] /\ Z[1] = Z[N]
LI(t, b, d) == [t |-> t, b |-> b, api |-> "e", op |-> "interp", d |-> d]
Quad(t, b) == [d \in 1..4 |-> LI(t, b, d)]
LInsts == Quad("lin", 0) \o (IF N >= 3 THEN Quad("cubic", 0) ELSE <<>>)
                         \o (IF N >= 3 /\ BothPeriodic THEN Quad("cubic", 1) ELSE <<>>)
LRelsAt(base) == Additive("linearity:sum", base + 3, base + 1, base + 2, AllPts)
                 \o Homogeneous("linearity:multiple", base + 4, base + 1, c.m, AllPts)
LRels == LRelsAt(0) \o (IF N >= 3 THEN LRelsAt(4) ELSE <<>>)
                    \o (IF N >= 3 /\ BothPeriodic THEN LRelsAt(8) ELSE <<>>)

\* ---- fit reproduces what lies in the spline space ------------------------------------------
Refined == [j \in 1..(2 * N - 1) |-> IF j % 2 = 1 THEN K[(j + 1) \div 2]
                                     ELSE K[j \div 2] + Gap(K, j \div 2 - 1) \div 2]
SrcInst(t, b) == [t |-> t, b |-> b, api |-> "e", op |-> "interp", d |-> 1]
\* same grid: through GenerateGrid(min, max, h) when uniform (gg), else through getX() (g only)
SameGridFit(t, b, src) ==
  IF Uniform THEN [t |-> t, b |-> b, api |-> "i", op |-> "fitfrom", src |-> src,
                   gg |-> <<K[1], K[N], Gap(K, 0)>>, g |-> K, p |-> QuarterPoints(K)]
  ELSE [t |-> t, b |-> b, api |-> "i", op |-> "fitfrom", src |-> src, g |-> K, p |-> QuarterPoints(K)]
FineGridFit(t, b, src) ==
  [t |-> t, b |-> b, api |-> "e", op |-> "fitfrom", src |-> src, g |-> Refined, p |-> Eighths]
Triple(t, b, base) == <<SrcInst(t, b), SameGridFit(t, b, base + 1), FineGridFit(t, b, base + 1)>>
FInsts == Triple("lin", 0, 0) \o (IF N >= 3 THEN Triple("cubic", 0, 3) ELSE <<>>)
                              \o (IF N >= 3 /\ Y[1] = Y[N] THEN Triple("cubic", 1, 6) ELSE <<>>)
FRelsAt(base) == SameAt("fit-reproduces:same-grid", base + 2, base + 1, Eighths)
                 \o SameAt("fit-reproduces:refined-grid", base + 3, base + 1, Eighths)
FRels == FRelsAt(0) \o (IF N >= 3 THEN FRelsAt(3) ELSE <<>>)
                    \o (IF N >= 3 /\ Y[1] = Y[N] THEN FRelsAt(6) ELSE <<>>)

\* ---- periodic cubic fit of arbitrary data given on the quarter points -----------------------
\* data: y at quarter point j is Y[(j mod N) + 1] + j mod 3 - 1 (not in any spline space), first = last
QP == QuarterPoints(K)
PerY == [j \in 1..Len(QP) |-> IF j = Len(QP) THEN Y[1] - 1 ELSE Y[((j - 1) % N) + 1] + ((j - 1) % 3) - 1]
PerZ == [j \in 1..Len(QP) |-> IF j = Len(QP) THEN 2 ELSE ((j * j) % 5) - 2 + (IF j = 1 THEN 2 ELSE 0)]
PData == <<[k |-> QP, y |-> PerY], [k |-> QP, y |-> PerZ],
           [k |-> QP, y |-> [j \in 1..Len(QP) |-> PerY[j] + PerZ[j]]]>>
\* cardinal data on K: e_k (k = 1..N) and e_1 + e_N (periodic space)
Unit(k) == [i \in 1..N |-> IF i = k THEN 1 ELSE 0]
Ends == [i \in 1..N |-> IF i = 1 \/ i = N THEN 1 ELSE 0]
PDataAll == PData \o [k \in 1..N |-> [k |-> K, y |-> Unit(k)]] \o <<[k |-> K, y |-> Ends]>>
PFit(t, b, d) == [t |-> t, b |-> b, api |-> "i", op |-> "fit", d |-> d, g |-> K]
PBase(t, b, d) == [t |-> t, b |-> b, api |-> "e", op |-> "interp", d |-> d]
\* 1-3 cubic periodic fits, 4-6 cubic natural fits, 7 linear fit, then the cardinal splines:
\* 7+k cubic natural e_k, 7+N+k linear e_k, 7+2N+k cubic periodic (k = 1: e_1+e_N, k = 2..N-1: e_k)
PInsts == <<PFit("cubic", 1, 1), PFit("cubic", 1, 2), PFit("cubic", 1, 3),
            PFit("cubic", 0, 1), PFit("cubic", 0, 2), PFit("cubic", 0, 3), PFit("lin", 0, 1)>>
          \o [k \in 1..N |-> PBase("cubic", 0, 3 + k)]
          \o [k \in 1..N |-> PBase("lin", 0, 3 + k)]
          \o [k \in 1..(N - 1) |-> PBase("cubic", 1, IF k = 1 THEN 3 + N + 1 ELSE 3 + k)]
PRels == <<PeriodicValue(1, K), PeriodicSlope(1, K), PeriodicCurv(1, K)>>
         \o PieceRelations(1, K, 3, TRUE)                       \* a fitted spline is smooth too
         \o PieceRelations(4, K, 3, TRUE) \o NaturalEnds(4, K) \o ExtrapRelations(4, K, 3)
         \o PieceRelations(7, K, 1, FALSE) \o ExtrapRelations(7, K, 1)
         \o Additive("fit-linearity:sum", 3, 1, 2, QP)
         \o Additive("fit-linearity:sum", 6, 4, 5, QP)
PBil == [k \in 1..N |-> NormalEquation("least-squares:normal-equation", 4, 7 + k, QP, PerY)]
        \o [k \in 1..N |-> NormalEquation("least-squares:normal-equation", 7, 7 + N + k, QP, PerY)]
        \o [k \in 1..(N - 1) |-> NormalEquation("least-squares:normal-equation", 1, 7 + 2 * N + k, QP, PerY)]

\* ---- reflection symmetry -----------------------------------------------------------------------
Mirror(x) == [i \in 1..Len(x) |-> -x[Len(x) + 1 - i]]
Reverse(y) == [i \in 1..Len(y) |-> y[Len(y) + 1 - i]]
MData == <<[k |-> K, y |-> Y], [k |-> Mirror(K), y |-> Reverse(Y)],
           [k |-> QP, y |-> PerY], [k |-> Mirror(QP), y |-> Reverse(PerY)]>>
\* configurations as in the scale family, natural boundaries only; instance 2i-1 original, 2i mirrored
MCfgs == <<<<"lin", "interp">>, <<"cubic", "interp">>>>
         \o (IF N >= 4 THEN <<<<"akima", "interp">>>> ELSE <<>>)
         \o <<<<"lin", "fit">>, <<"cubic", "fit">>>>
MInst(cf, m) == IF cf[2] = "interp"
                THEN [t |-> cf[1], b |-> 0, api |-> "e", op |-> "interp", d |-> IF m THEN 2 ELSE 1]
                ELSE [t |-> cf[1], b |-> 0, api |-> "i", op |-> "fit", d |-> IF m THEN 4 ELSE 3,
                      g |-> IF m THEN Mirror(K) ELSE K]
MInsts == [j \in 1..(2 * Len(MCfgs)) |-> MInst(MCfgs[(j + 1) \div 2], j % 2 = 0)]
InteriorKnot(r) == \E i \in 2..(N - 1) : K[i] = r
MRels == Flatten([i \in 1..Len(MCfgs) |->
           LET s == 2 * i - 1
               m == 2 * i
               slopePts == IF MCfgs[i][1] = "lin" THEN SelectSeq(AllPts, LAMBDA r : ~InteriorKnot(r)) ELSE AllPts
           IN [j \in 1..Len(AllPts) |->
                 Relation("reflection-symmetry:value", s, <<Term(1, m, 0, -AllPts[j]), Term(-1, s, 0, AllPts[j])>>)]
              \o [j \in 1..Len(slopePts) |->
                 Relation("reflection-symmetry:slope", s, <<Term(1, m, 1, -slopePts[j]), Term(1, s, 1, slopePts[j])>>)]])

\* ---- listing order of the fit samples -------------------------------------------------------------
LQ == Len(QP)                                   \* odd: 4 (N-1) + 1, so stride 2 is a permutation
Perm(kind) == IF kind = 1 THEN [j \in 1..LQ |-> LQ + 1 - j]
              ELSE IF kind = 2 THEN [j \in 1..LQ |-> (((j - 1) * 2) % LQ) + 1]
              ELSE [j \in 1..LQ |-> IF j <= (LQ + 1) \div 2 THEN 2 * j - 1 ELSE 2 * (j - (LQ + 1) \div 2)]
OData == <<[k |-> QP, y |-> PerY]>>
         \o [kind \in 1..3 |-> [k |-> [j \in 1..LQ |-> QP[Perm(kind)[j]]], y |-> [j \in 1..LQ |-> PerY[Perm(kind)[j]]]]]
OCfgs == <<<<"lin", 0>>, <<"cubic", 0>>, <<"cubic", 1>>>>
\* instance 4(i-1)+1 = configuration i with ascending data, +1 descending, +2 scrambled, +3 two blocks
OInsts == [j \in 1..12 |-> LET cf == OCfgs[((j - 1) \div 4) + 1] IN
             [t |-> cf[1], b |-> cf[2], api |-> "e", op |-> "fit", d |-> ((j - 1) % 4) + 1, g |-> K]]
OClause(kind) == IF kind = 1 THEN "sample-order-independence:descending"
                 ELSE IF kind = 2 THEN "sample-order-independence:scrambled" ELSE "sample-order-independence:two-blocks"
ORels == Flatten([i \in 1..9 |->
           LET cfi == (i - 1) \div 3  kind == ((i - 1) % 3) + 1
           IN SameAt(OClause(kind), 4 * cfi + 1 + kind, 4 * cfi + 1, AllPts)])

\* ---- scale invariance ---------------------------------------------------------------------------
ScaleOf(v) == IF v = 1 THEN <<-60, 0>> ELSE IF v = 2 THEN <<-40, 0>> ELSE IF v = 3 THEN <<40, 0>>
              ELSE IF v = 4 THEN <<0, -20>> ELSE IF v = 5 THEN <<0, 20>> ELSE <<0, 30>>
\* configurations <<type, bc, op, piece degree>>; interpolation of (K, Y), fits of (QP, PerY) on grid K
SCfgs == <<<<"lin", 0, "interp", 1>>>>
         \o (IF N >= 3 THEN <<<<"cubic", 0, "interp", 3>>>> ELSE <<>>)
         \o (IF N >= 4 THEN <<<<"akima", 0, "interp", 3>>>> ELSE <<>>)
         \o (IF N >= 3 /\ Y[1] = Y[N] THEN <<<<"cubic", 1, "interp", 3>>>> ELSE <<>>)
         \o (IF N >= 4 /\ Y[1] = Y[N] THEN <<<<"akima", 1, "interp", 3>>>> ELSE <<>>)
         \o <<<<"lin", 0, "fit", 1>>, <<"cubic", 0, "fit", 3>>, <<"cubic", 1, "fit", 3>>>>
SInst(cf, ys, xs) == IF cf[3] = "interp"
                     THEN [t |-> cf[1], b |-> cf[2], api |-> "e", op |-> "interp", d |-> 1, ys |-> ys, xs |-> xs]
                     \* Fit under abscissa scaling must SUCCEED and be covariant up to the conditioning of the
                     \* constrained QR (unscaled unknowns (f, f''), matrix columns differ by h^2: error ~ 4^|m| eps;
                     \* measured natural fit 3e-6 at 2^20, periodic fit on 3 nodes 2e-9 at 2^-10 and 3e-3 at 2^-20, where
                     \* the slope row and the smoothing row share their f-part).  Natural fits: 2^-20 .. 2^20, periodic
                     \* fits 2^-10 .. 2^10; the harness tolerance for fit instances is max(1e-9, 4^|m| 1e-13).
                     ELSE [t |-> cf[1], b |-> cf[2], api |-> "i", op |-> "fit", d |-> 2, g |-> K, ys |-> ys,
                           xs |-> LET cap == IF cf[2] = 1 THEN 10 ELSE 20 IN
                                  IF xs > cap THEN cap ELSE IF xs < -cap THEN -cap ELSE xs]
\* instance 2i-1 = configuration i unscaled, 2i = scaled
SInsts == LET sc == ScaleOf(c.v) IN
  [j \in 1..(2 * Len(SCfgs)) |-> IF j % 2 = 1 THEN SInst(SCfgs[(j + 1) \div 2], 0, 0)
                                  ELSE SInst(SCfgs[j \div 2], sc[1], sc[2])]
SRels == LET sc == ScaleOf(c.v)
             what == IF sc[1] # 0 THEN "scale-invariance:ordinates" ELSE "scale-invariance:abscissae"
         IN Flatten([i \in 1..Len(SCfgs) |->
              LET cf == SCfgs[i] IN
              (IF cf[1] = "akima" /\ sc[1] = -60 THEN <<>> ELSE SameAt(what, 2 * i, 2 * i - 1, AllPts))
              \o PieceRelations(2 * i, K, cf[4], cf[1] # "lin")
              \o ExtrapRelations(2 * i, K, cf[4])])
\* f''(K[2]) of the scaled cubic instances from the right: (-3 q0 + 4 q1 - q2) / (2 d)
SProbe == Flatten([i \in 1..Len(SCfgs) |->
            IF SCfgs[i][1] = "cubic"
            THEN LET d == Quarter(K, 1) IN
                 <<Relation("curvature-probe", 2 * i,
                            <<Term(-3, 2 * i, 1, K[2]), Term(4, 2 * i, 1, K[2] + d), Term(-1, 2 * i, 1, K[2] + 2 * d)>>)>>
            ELSE <<>>])

Theorems == ph = 1 =>
  /\ IsGrid(K)
  /\ c.fam = "fitspace" =>
       /\ IsGrid(Refined)
       /\ \A i \in 1..N : \E j \in 1..Len(Refined) : Refined[j] = K[i]        \* refinement contains K
       \* refined intervals nest inside the intervals of K: a piecewise polynomial on K is one on the
       \* refinement, and natural/periodic end conditions are the same, so the source lies in the finer space
       /\ \A j \in 1..Len(Eighths) :
            LET r == Eighths[j] IN
            SpecInterval(K, r) = SpecInterval(K, Refined[SpecInterval(Refined, r) + 1])
  /\ c.fam = "linear" =>
       \A j \in 1..Len(AllPts) :
          LET r == AllPts[j] IN
          /\ LinValue(K, Sum, r)[1] = LinValue(K, Y, r)[1] + LinValue(K, Z, r)[1]
          /\ LinValue(K, Mul, r)[1] = c.m * LinValue(K, Y, r)[1]
          /\ LinDeriv(K, Sum, r)[1] = LinDeriv(K, Y, r)[1] + LinDeriv(K, Z, r)[1]

Vector == (Emit /\ ph = 1) =>
  PrintT(ToJson(
    IF c.fam = "linear" THEN [fam |-> "linear", data |-> LData, inst |-> LInsts, exact |-> <<>>, rel |-> CompactRels(LRels)]
    ELSE IF c.fam = "mirror" THEN [fam |-> "mirror", data |-> MData, inst |-> MInsts, exact |-> <<>>,
                                   rel |-> CompactRels(MRels)]
    ELSE IF c.fam = "order" THEN [fam |-> "order", data |-> OData, inst |-> OInsts, exact |-> <<>>,
                                  rel |-> CompactRels(ORels)]
    ELSE IF c.fam = "scale" THEN [fam |-> "scale", data |-> <<[k |-> K, y |-> Y], [k |-> QP, y |-> PerY]>>,
                                  inst |-> SInsts, exact |-> <<>>, rel |-> CompactRels(SRels),
                                  probe |-> CompactRels(SProbe)]
    ELSE IF c.fam = "fitspace" THEN [fam |-> "fitspace", data |-> <<[k |-> K, y |-> Y]>>, inst |-> FInsts,
                                     exact |-> <<>>, rel |-> CompactRels(FRels)]
    ELSE [fam |-> "fitopt", data |-> PDataAll, inst |-> PInsts, exact |-> <<>>, rel |-> CompactRels(PRels),
          bil |-> CompactBil(PBil)]))
=============================================================================
