---- MODULE MCTableQuick ----
EXTENDS TableOps
MCMin == {-16, 0, 6}
MCYs(l) == IF l <= 4 THEN {-3, 0, 2} ELSE {-2, 3}
MCZ == {<<1, -2>>, <<0, 3, -1>>, <<2, -1, 0, 1>>, <<1, 1, -3, 2, 0>>}
====
