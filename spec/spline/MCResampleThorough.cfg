SPECIFICATION Spec
CONSTANTS
  NSet = {2, 3, 4, 5, 6}
  GapSet = {1, 2, 3}
  YSeeds = {0, 1, 2, 3, 4, 5}
  OffSet <- MCOff
  Q = 8
  ThinLin = 400
  ThinIdent = 16
  ThinDov = 12
  ThinFit = 60
  ThinDec = 40
  LongN = {41, 61, 81}
  Emit = TRUE
INVARIANTS Theorems Vector
CHECK_DEADLOCK FALSE
