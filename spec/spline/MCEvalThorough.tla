---- MODULE MCEvalThorough ----
EXTENDS SplineEval
MCN == {2, 3, 4, 5, 6}
MCGaps(n) == IF n <= 5 THEN {1, 2, 3} ELSE {1, 2}
MCYs(n) == IF n <= 3 THEN {-3, -2, -1, 0, 1, 2, 3} ELSE IF n = 4 THEN {-3, -1, 0, 2} ELSE IF n = 5 THEN {-2, 0, 3} ELSE {-2, 3}
MCOff(n) == IF n <= 4 THEN {-3, 0} ELSE {0}
MCLong == {40, 200}
====
