----------------------------- MODULE SplineEval -----------------------------
(* Mode L, family "eval": one data set (K, Y) per initial state.  For every data set
   TLC checks the design-level theorems of SplineLattice at every evaluation point and
   prints one vector:
     exact   knot values of every spline type/boundary, the complete linear spline
             (value, derivative, interval number at all quarter points and outside)
     rel     the single-instance relations of SplineRel for the real splines:
             knot continuity (value; slope for cubic/Akima), derivative-of-value inside
             every interval, zero end curvature (natural cubic), periodic joins
             (cubic/Akima when y_1 = y_N).
   The phase variable moves the expensive work from Init (sequential in TLC) to the
   worker threads.                                                                    *)
EXTENDS SplineRel, TLC, Json, IOUtils

CONSTANTS NSet, GapsOf(_), YsOf(_), OffsOf(_), LongN, Q, Emit
VARIABLES c, ph
vars == <<c, ph>>

Slice == IF "C12_SLICE" \in DOMAIN IOEnv THEN atoi(IOEnv.C12_SLICE) ELSE 0
NSlices == IF "C12_NSLICES" \in DOMAIN IOEnv THEN atoi(IOEnv.C12_NSLICES) ELSE 1

RECURSIVE SumRange(_, _, _)
SumRange(f, lo, hi) == IF lo > hi THEN 0 ELSE IF lo = hi THEN f[lo]
                       ELSE LET mid == (lo + hi) \div 2 IN SumRange(f, lo, mid) + SumRange(f, mid + 1, hi)
SumTo(f, n) == SumRange(f, 1, n)
Knots(o, g) == [i \in 1..(Len(g) + 1) |-> Q * (o + SumTo(g, i - 1))]
Hash(n, g, o, y) == (SumTo([i \in 1..n |-> i * y[i]], n) + 3 * SumTo(g, n - 1) + o) % NSlices

\* "hundreds of points": long grids (v = 0 uniform, else gaps 1..3) with pseudo-random ordinates in -3..3,
\* v odd: last ordinate = first (periodic data)
LongK(n, v) == Knots(-v, [i \in 1..(n - 1) |-> 1 + ((i * v) % 3)])
LongY(n, v) == [i \in 1..n |-> IF i = n /\ v % 2 = 1 THEN ((v + 7) % 7) - 3 ELSE ((i * i * (v + 2) + 5 * i - 6 + v) % 7) - 3]

Init == /\ ph = 0
        /\ \/ \E n \in NSet : \E g \in [1..(n - 1) -> GapsOf(n)], o \in OffsOf(n), y \in [1..n -> YsOf(n)] :
                /\ Hash(n, g, o, y) = Slice
                /\ c = [K |-> Knots(o, g), Y |-> y]
           \/ \E n \in LongN, v \in 0..3 : Slice = 0 /\ c = [K |-> LongK(n, v), Y |-> LongY(n, v)]
Next == ph = 0 /\ ph' = 1 /\ UNCHANGED c
Spec == Init /\ [][Next]_vars

K == c.K
Y == c.Y
N == Len(K)
Periodic == Y[1] = Y[N]
Pts == QuarterPoints(K) \o OutsidePoints(K)

\* ---- instances ------------------------------------------------------------------
Inst(t, b, api) == [t |-> t, b |-> b, api |-> api, op |-> "interp", d |-> 1]
Insts ==
  <<Inst("lin", 0, "e")>>
  \o (IF N >= 3 THEN <<Inst("cubic", 0, "i")>> ELSE <<>>)
  \o (IF N >= 4 THEN <<Inst("akima", 0, "e")>> ELSE <<>>)
  \o (IF Periodic /\ N >= 3 THEN <<Inst("cubic", 1, "e")>> ELSE <<>>)
  \o (IF Periodic /\ N >= 4 THEN <<Inst("akima", 1, "i")>> ELSE <<>>)
\* positions in Insts (0 = absent)
SLin == 1
SCub == IF N >= 3 THEN 2 ELSE 0
SAki == IF N >= 4 THEN 3 ELSE 0
SCubP == IF Periodic /\ N >= 3 THEN (IF N >= 4 THEN 4 ELSE 3) ELSE 0
SAkiP == IF Periodic /\ N >= 4 THEN 5 ELSE 0

\* ---- exact expectations: <<inst, kind, r, num, den>>, kind 0 value 1 derivative 2 interval
KnotExact(s) == IF s = 0 THEN <<>> ELSE [i \in 1..N |-> <<s, 0, K[i], KnotValue(Y, i)[1], 1>>]
LinExact ==
  LET pts == Pts IN
  Flatten([j \in 1..Len(pts) |->
     LET r == pts[j]  v == LinValue(K, Y, r)  d == LinDeriv(K, Y, r)
     IN << <<SLin, 0, r, v[1], v[2]>>, <<SLin, 1, r, d[1], d[2]>>, <<SLin, 2, r, SpecInterval(K, r), 1>> >>])
IvlExact(s) == IF s = 0 THEN <<>>
               ELSE LET op == OutsidePoints(K) IN [j \in 1..4 |-> <<s, 2, op[j], SpecInterval(K, op[j]), 1>>]
Exact == LinExact \o KnotExact(SCub) \o KnotExact(SAki) \o KnotExact(SCubP) \o KnotExact(SAkiP)
         \o IvlExact(SCub) \o IvlExact(SAki)

\* ---- relations -------------------------------------------------------------------
Rels ==
  PieceRelations(SLin, K, 1, FALSE) \o ExtrapRelations(SLin, K, 1)
  \o (IF SCub # 0 THEN PieceRelations(SCub, K, 3, TRUE) \o NaturalEnds(SCub, K) \o ExtrapRelations(SCub, K, 3) ELSE <<>>)
  \o (IF SAki # 0 THEN PieceRelations(SAki, K, 3, TRUE) \o ExtrapRelations(SAki, K, 3) ELSE <<>>)
  \o (IF SCubP # 0 THEN PieceRelations(SCubP, K, 3, TRUE) \o ExtrapRelations(SCubP, K, 3)
                        \o <<PeriodicValue(SCubP, K), PeriodicSlope(SCubP, K), PeriodicCurv(SCubP, K)>> ELSE <<>>)
  \o (IF SAkiP # 0 THEN PieceRelations(SAkiP, K, 3, TRUE) \o ExtrapRelations(SAkiP, K, 3)
                        \o <<PeriodicValue(SAkiP, K), PeriodicSlope(SAkiP, K)>> ELSE <<>>)

\* ---- what TLC checks ---------------------------------------------------------------
\* (LET-bound values are evaluated once per state; the plain definitions above would be
\*  re-evaluated on every use)
Theorems == ph = 1 =>
  LET pts == Pts
      rels == Rels
  IN  /\ IsGrid(K)
      /\ \A j \in 1..Len(pts) : IntervalTheorems(K, pts[j]) /\ LinTheorems(K, Y, pts[j])
      \* well-formedness: every relation stays inside the grid, or entirely in ONE extrapolation region
      /\ \A j \in 1..Len(rels) :
            LET P == {rels[j].t[t][4] : t \in 1..Len(rels[j].t)} IN
            \/ \A r \in P : r \in K[1]..K[N]
            \/ \A r \in P : r < K[1]
            \/ \A r \in P : r > K[N]
      \* the linear model satisfies the extrapolation identities (value/derivative consistent outside)
      /\ \A x \in {K[1] - 4 * Quarter(K, 0), K[N] + Quarter(K, N - 2)} :
            LET d == IF x < K[1] THEN Quarter(K, 0) ELSE Quarter(K, N - 2) IN
            (LinValue(K, Y, x + d)[1] - LinValue(K, Y, x)[1]) * LinDeriv(K, Y, x)[2]
               = d * LinDeriv(K, Y, x)[1] * LinValue(K, Y, x)[2]

Vector == (Emit /\ ph = 1) =>
  PrintT(ToJson([fam |-> "eval", data |-> <<[k |-> K, y |-> Y]>>, inst |-> Insts, exact |-> CompactExact(Exact), rel |-> CompactRels(Rels)]))
=============================================================================
