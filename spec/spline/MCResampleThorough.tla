---- MODULE MCResampleThorough ----
EXTENDS Resample
MCOff == {-2, 0, 3}
====
