SPECIFICATION Spec
CONSTANTS
  NSet <- MCN
  GapsOf <- MCGaps
  OffSet <- MCOff
  ASet <- MCA
  BSet <- MCB
  CSet = {1, 8}
  MSet = {4, 6, 9}
  SSet = {2, 4}
  HSet = {4, 6, 8, 12, 16, 20}
  Q = 8
  Emit = TRUE
INVARIANTS Theorems Vector
CHECK_DEADLOCK FALSE
