---- MODULE MCEvalTiny ----
EXTENDS SplineEval
MCN == {4}
MCGaps(n) == {1, 3}
MCYs(n) == {-3, 0, 2}
MCOff(n) == {0}
MCLong == {12}
====
