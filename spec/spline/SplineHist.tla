----------------------------- MODULE SplineHist -----------------------------
(* Mode H: ONE spline object and the history of calls made on it.
   Every clause of C12 is stated for "the spline built from (boundary condition, grid, data)";
   for that to be meaningful the object must not remember anything else.  Abstract state of the
   object = what the LAST call handed to it:
        bc    boundary condition in force at that call (setBC / setBCInt)
        grid  knots: Interpolate(x, y) makes x the grid; Fit keeps the grid it finds
              (set by getX() = g, or left behind by the previous call)
        data  the (x, y) of the last Interpolate/Fit, and which of the two it was
   Actions (one per public call sequence the tools use):
        Interp(b, d)      setBC(b); Interpolate(data set d)
        FitOn(b, d, s)    setBC(b); getX() = knots of data set d; Fit(quarter points, ordinates pattern s)
        FitKeep(b, s)     setBC(b); Fit(quarter points of the CURRENT grid, pattern s)  -- grid inherited
   History independence: after every call the object is indistinguishable (values and derivatives on
   all quarter points, outside points) from a FRESH object that receives only
   setBC(bc); [getX() = grid;] Interpolate/Fit(data).  Both sides are outputs of the real code; the
   comparison is exact (same arithmetic on the same inputs).  TLC enumerates all histories up to
   Depth (BFS) or random deeper ones (-simulate) and prints one vector per history of length >= 2. *)
EXTENDS SplineRel, TLC, Json

CONSTANTS Types,        \* subset of {"lin", "cubic", "akima"}
          DataSets,     \* sequence of [k |-> knots, y |-> ordinates]
          Patterns,     \* ordinate patterns for fits
          Depth, Emit
VARIABLES t, obj, h
vars == <<t, obj, h>>

None == [bc |-> 0, op |-> "none", grid |-> <<>>, x |-> <<>>, y |-> <<>>]
MinPts(ty) == IF ty = "lin" THEN 2 ELSE IF ty = "cubic" THEN 3 ELSE 4
CanFit(ty) == ty # "akima"                      \* AkimaSpline::Fit throws by design

\* fit data on the quarter points of grid g: pattern s, not in any spline space
FitY(g, s) == LET qp == QuarterPoints(g) IN
  [j \in 1..Len(qp) |-> (((j * j * (s + 1) + 3 * j + s) % 7) - 3)]

Init == /\ t \in Types /\ obj = None /\ h = <<>>

Interp(b, d) ==
  /\ Len(DataSets[d].k) >= MinPts(t)
  /\ obj' = [bc |-> b, op |-> "interp", grid |-> DataSets[d].k, x |-> DataSets[d].k, y |-> DataSets[d].y]
  /\ h' = Append(h, [b |-> b, op |-> "interp", k |-> DataSets[d].k, y |-> DataSets[d].y, g |-> <<>>])

FitWith(b, g, s, explicit) ==
  /\ CanFit(t)
  /\ obj' = [bc |-> b, op |-> "fit", grid |-> g, x |-> QuarterPoints(g), y |-> FitY(g, s)]
  \* g recorded in the call only when the caller sets it; an inherited grid is NOT part of the call
  /\ h' = Append(h, [b |-> b, op |-> "fit", k |-> QuarterPoints(g), y |-> FitY(g, s),
                     g |-> IF explicit THEN g ELSE <<>>])
FitOn(b, d, s) == FitWith(b, DataSets[d].k, s, TRUE)
FitKeep(b, s) == obj.grid # <<>> /\ FitWith(b, obj.grid, s, FALSE)

Next == /\ Len(h) < Depth
        /\ \E b \in {0, 1} :
             \/ \E d \in 1..Len(DataSets) : Interp(b, d)
             \/ \E d \in 1..Len(DataSets), s \in Patterns : FitOn(b, d, s)
             \/ \E s \in Patterns : FitKeep(b, s)
        /\ UNCHANGED t
Spec == Init /\ [][Next]_vars

\* ---- design level ---------------------------------------------------------------------
\* the abstract state is a function of the last call and, for an inherited grid, of the grid
\* left by the call before: nothing else of the history survives
LastCall == h[Len(h)]
GridLeftBy(n) ==            \* grid after the first n calls (recursively: last explicit grid / last Interpolate)
  LET RECURSIVE G(_)
      G(i) == IF i = 0 THEN <<>>
              ELSE IF h[i].op = "interp" THEN h[i].k
              ELSE IF h[i].g # <<>> THEN h[i].g ELSE G(i - 1)
  IN G(n)
StateIsLastCall == Len(h) > 0 =>
  /\ obj.bc = LastCall.b /\ obj.op = LastCall.op /\ obj.x = LastCall.k /\ obj.y = LastCall.y
  /\ obj.grid = GridLeftBy(Len(h))
  /\ IsGrid(obj.grid)
  /\ obj.op = "fit" =>        \* well-posed: every grid interval has data strictly inside
       \A i \in 1..(Len(obj.grid) - 1) : \E j \in 1..Len(obj.x) : obj.grid[i] < obj.x[j] /\ obj.x[j] < obj.grid[i + 1]

\* ---- vector: instance 1 = the object with its whole history, instance 2 = fresh object ---------
(* Probe order is part of the history.  After call i the harness evaluates the object on the probe
   points of the grid left by that call, in an order that depends on i:
        i mod 3 = 1 : low outside points, then the quarter points rotated so that the LAST point
                      evaluated is a quarter point in the middle of the grid
        i mod 3 = 2 : quarter points ascending, then the outside points (last: far above the grid)
        i mod 3 = 0 : the reverse of that (last: the first knot)
   even i: CalculateDerivative on all points first, then Calculate; odd i the other way round; and
   the FIRST point evaluated after call i >= 2 is the point evaluated LAST after call i-1 (the same
   real number, now on whatever grid the new call installed).  Expectation unchanged: everything
   observed after the last call equals a fresh object.                                            *)
Rev(sq) == [j \in 1..Len(sq) |-> sq[Len(sq) + 1 - j]]
Rot(sq, m) == [j \in 1..Len(sq) |-> sq[((j + m - 1) % Len(sq)) + 1]]
Ord(i) == LET G == GridLeftBy(i)
              qp == QuarterPoints(G)
              op == OutsidePoints(G)
          IN  IF i % 3 = 1 THEN op \o Rot(qp, Len(qp) \div 2)
              ELSE IF i % 3 = 2 THEN qp \o op
              ELSE Rev(qp \o op)
LastPt(i) == Ord(i)[Len(Ord(i))]
FirstKind(i) == IF i % 2 = 0 THEN 1 ELSE 0
\* probe groups <<kind, r1, r2, ...>> of step i, in evaluation order
PrOf(i) == << <<FirstKind(i)>> \o (IF i > 1 THEN <<LastPt(i - 1)>> ELSE <<>>) \o Ord(i),
              <<1 - FirstKind(i)>> \o Ord(i) >>
Step(c, g, pr) == [b |-> c.b, api |-> IF c.b = 0 THEN "e" ELSE "i", op |-> c.op, d |-> 0, k |-> c.k, y |-> c.y,
                   g |-> g, pr |-> pr]
Steps == [i \in 1..Len(h) |-> Step(h[i], h[i].g, PrOf(i))]
Probe == QuarterPoints(obj.grid) \o OutsidePoints(obj.grid)
Prev == h[Len(h) - 1]
Clause == "history-independence:after-" \o (IF Prev.b = 0 THEN "natural" ELSE "periodic") \o "-" \o Prev.op
Carried == LET n == Len(h) IN
  Relation(Clause \o ":first-evaluation", 1,
           <<Term(1, 1, FirstKind(n), LastPt(n - 1)), Term(-1, 2, FirstKind(n), LastPt(n - 1))>>)
Vec == [fam |-> "history", data |-> <<[k |-> obj.x, y |-> obj.y]>>,
        inst |-> << [t |-> t, b |-> obj.bc, api |-> "e", op |-> obj.op, d |-> 1, g |-> obj.grid, steps |-> Steps],
                    [t |-> t, b |-> obj.bc, api |-> "i", op |-> obj.op, d |-> 1, g |-> obj.grid,
                     steps |-> <<Step(LastCall, IF obj.op = "fit" THEN obj.grid ELSE <<>>, <<>>)>>] >>,
        exact |-> <<>>,
        rel |-> CompactRels(<<Carried>> \o SameAt(Clause, 1, 2, Probe))]
Vector == (Emit /\ Len(h) >= 2) => PrintT(ToJson(Vec))
=============================================================================
