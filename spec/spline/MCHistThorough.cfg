SPECIFICATION Spec
CONSTANTS
  Types = {"lin", "cubic", "akima"}
  DataSets <- MCData
  Patterns = {1, 4}
  Depth = 3
  Emit = TRUE
INVARIANTS StateIsLastCall Vector
CHECK_DEADLOCK FALSE
