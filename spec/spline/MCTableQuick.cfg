SPECIFICATION Spec
CONSTANTS
  MinSet <- MCMin
  SpanSet = {0, 3, 7, 8, 9, 16, 20, 36, 40, 100}
  StepSet = {1, 2, 3, 8, 12, 16}
  LenSet = {2, 3, 4, 5}
  YsOf <- MCYs
  PassSet = {0, 1, 2, 3}
  ZSeqs <- MCZ
  Emit = TRUE
INVARIANTS Theorems Vector
CHECK_DEADLOCK FALSE
