SPECIFICATION Spec
CONSTANTS
  MinSet <- MCMin
  SpanSet = {0, 8, 16, 20, 36, 40, 100}
  StepSet = {2, 8, 12, 16}
  LenSet = {2, 3, 4, 5}
  YsOf <- MCYs
  PassSet = {0, 1, 2, 3}
  ZSeqs <- MCZ
  Emit = TRUE
INVARIANTS Theorems Vector
CHECK_DEADLOCK FALSE
