SPECIFICATION Spec
CONSTANTS
  NSet <- MCN
  GapsOf <- MCGaps
  YsOf <- MCYs
  Y2Of <- MCY2
  OffsOf <- MCOff
  MulSet <- MCMul
  ScaleThin = 2
  Q = 8
  Emit = TRUE
INVARIANTS Theorems Vector
CHECK_DEADLOCK FALSE
