---- MODULE MCPairsThorough ----
EXTENDS SplinePairs
MCN == {2, 3, 4, 5}
MCGaps(n) == IF n <= 4 THEN {1, 2, 3} ELSE {1, 2}
MCYs(n) == IF n <= 3 THEN {-3, -1, 0, 1, 2} ELSE IF n = 4 THEN {-3, 0, 2} ELSE {-2, 1}
MCY2(n) == {[i \in 1..n |-> IF i = j THEN 1 ELSE 0] : j \in 1..n} \cup {[i \in 1..n |-> i * i - 3]}
MCOff(n) == IF n <= 3 THEN {-1, 2} ELSE {-1}
MCMul == {3}
====
