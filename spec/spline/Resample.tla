------------------------------ MODULE Resample ------------------------------
(* Mode L, executable level: one run of the real `csg_resample` per initial state.
   Input table (K, Y, F) with flags F[i] in {"i","o","u"}; options --type, --grid mn:h:mx,
   optionally --fitgrid, --boundaries periodic, --derivative, --comment.
   Expected from the spec: number and position of the output points (TableGrid, last point
   pinned), their flags (SpecFlag; checked here against the transcription AlgoFlags of the two
   loops in csg_resample.cc), and
     "lin"      type linear: every value and derivative (LinValue / LinDeriv, also beyond the input
                range), i.e. derivative output = derivative of value output exactly;
     "ident"    all types, output grid = input grid (uniform): values and flags returned unchanged;
     "identdec" the same identity clause on LONG DECIMAL tables (x = k/10 or k/20, i.e. steps 0.05, 0.1, 0.2;
                41..81 points; negative, zero-crossing and positive abscissae; flag transitions at early
                and late points and an alternating pattern): the output grid is produced by repeated
                addition of a step that is not exact in binary, so the flag loop's comparison tolerance
                is what keeps the flags in place; values returned (all types), flags kept (value and
                derivative table);
                "ident"/"identdec" vectors with ye = TRUE give the INPUT table an error column (lines
                "x y yerr flag"): the clause is unchanged - values returned, flags kept;
     "dov"      all types on the quarter-point grid, optionally one interval WIDER than the input on both
                sides: derivative-of-value (also in the two extrapolation regions) and knot-continuity
                relations between ROWS of the two output files; with periodic = TRUE the run uses
                --boundaries periodic and the first/last rows must agree in value and slope;
     "fitline"  straight-line data fitted on a coarser --fitgrid: output on the line; the input table
                may be LISTED in another order (field `order`: descending, scrambled, two ascending
                blocks; run with --nocut, flags not compared): a fit does not depend on the order in
                which the samples are listed.
   MAGNITUDES: every vector carries exact power-of-two scales xs, ys (x = 2^xs k/xd, y = 2^ys v/4; half
   of the vectors unscaled, the others ordinates 2^-40 / 2^40, abscissae 2^-20 / 2^20, or both): the
   harness scales the input table and the grid options and converts the output back, all expectations
   and relations are RELATIVE (csg_resample is covariant: values 2^ys, derivatives 2^ys / 2^xs).      *)
EXTENDS SplineRel, TLC, Json, IOUtils

CONSTANTS NSet, GapSet, YSeeds, OffSet, Q, ThinLin, ThinIdent, ThinDov, ThinFit, ThinDec, LongN, Emit
VARIABLES c, ph
vars == <<c, ph>>

Seed == IF "C12_PICK" \in DOMAIN IOEnv THEN atoi(IOEnv.C12_PICK) ELSE 0
Flags == {"i", "o", "u"}

RECURSIVE SumTo(_, _)
SumTo(f, n) == IF n = 0 THEN 0 ELSE f[n] + SumTo(f, n - 1)
Knots(o, g) == [i \in 1..(Len(g) + 1) |-> Q * (o + SumTo(g, i - 1))]
UKnots(o, g, n) == [i \in 1..n |-> Q * (o + (i - 1) * g)]
FlagNo(x) == IF x = "i" THEN 0 ELSE IF x = "o" THEN 1 ELSE 2
Hash(n, y, f, e) == SumTo([i \in 1..n |-> (2 * i + 1) * y[i] + (i * i + 1) * FlagNo(f[i])], n) + e
Chosen(hash, thin) == hash % thin = Seed % thin          \* 1/thin of the domain, which part depends on the seed
FlagNames == <<"i", "o", "u">>
\* all flag vectors for short tables, nine patterns for longer ones
FlagSeqs(n) == IF n <= 3 THEN [1..n -> Flags]
               ELSE {[i \in 1..n |-> FlagNames[((i * fs + (i * i) \div 2) % 3) + 1]] : fs \in 0..8}
\* ordinates in -3..3 derived from a seed (keeps the enumeration of Init small; the flags are enumerated fully)
YOf(sd, n) == [i \in 1..n |-> ((i * i * sd + 3 * i + sd) % 7) - 3]

IntegerGrid(mn, mx, h) == LET n == GridCount(mn, mx, h) IN n >= 2 /\ (mx - mn) % (n - 1) = 0

Init == /\ ph = 0
        /\ \E n \in NSet : \E sd \in YSeeds, f \in FlagSeqs(n), o \in OffSet : LET y == YOf(sd, n) IN
           \/ \E g \in [1..(n - 1) -> GapSet], dmn \in {-Q - 2, -2, 0, 4}, dmx \in {-4, 0, 6, 2 * Q + 2},
                 h \in {2, Q \div 2, Q, Q + 4, 2 * Q} :
                LET KK == Knots(o, g) IN
                /\ Chosen(Hash(n, y, f, dmn + 3 * dmx + 5 * h + SumTo(g, n - 1)), ThinLin)
                /\ KK[1] + dmn < KK[n] + dmx /\ IntegerGrid(KK[1] + dmn, KK[n] + dmx, h)
                /\ c = [fam |-> "lin", type |-> "linear", K |-> KK, Y |-> y, F |-> f,
                        grid |-> <<KK[1] + dmn, h, KK[n] + dmx>>, per |-> FALSE]
           \/ \E g \in GapSet, t \in {"linear", "cubic", "akima"}, ye \in BOOLEAN :
                /\ Chosen(Hash(n, y, f, g + (IF t = "cubic" THEN 1 ELSE IF t = "akima" THEN 2 ELSE 0) + (IF ye THEN 5 ELSE 0)), ThinIdent)
                /\ (t = "cubic" => n >= 3) /\ (t = "akima" => n >= 4)
                /\ c = [fam |-> "ident", type |-> t, K |-> UKnots(o, g, n), Y |-> y, F |-> f,
                        grid |-> <<Q * o, Q * g, Q * (o + (n - 1) * g)>>, per |-> FALSE, ye |-> ye]
           \/ \E m \in LongN, g \in {1, 2}, xd \in {10, 20}, pos \in {-1, 0, 1}, pat \in 0..3, t \in {"linear", "cubic", "akima"}, ye \in BOOLEAN :
                \* decimal lattice (unit 1/xd); pos: all abscissae negative / zero-crossing / positive
                LET o0 == IF pos < 0 THEN -(m - 1) * g - 3 ELSE IF pos = 0 THEN -((m - 1) \div 2) * g ELSE 2
                    KK == [i \in 1..m |-> o0 + (i - 1) * g]
                IN
                /\ n = 2 /\ f[1] # f[2] /\ o = 0                 \* two different flags A = f[1], B = f[2]
                /\ Chosen(Hash(n, y, f, m + 3 * g + xd + pos + 7 * pat
                                        + (IF t = "cubic" THEN 1 ELSE IF t = "akima" THEN 2 ELSE 0) + (IF ye THEN 11 ELSE 0)), ThinDec)
                /\ c = [fam |-> "identdec", type |-> t, K |-> KK, Y |-> YOf(sd, m), xd |-> xd,
                        \* pat 0: A..A B (last point only)   1: A B..B (from the 2nd point)
                        \*     2: A A A B..B A A (early and late transition)   3: alternating
                        F |-> [i \in 1..m |-> IF pat = 0 THEN (IF i = m THEN f[2] ELSE f[1])
                                              ELSE IF pat = 1 THEN (IF i = 1 THEN f[1] ELSE f[2])
                                              ELSE IF pat = 2 THEN (IF i <= 3 \/ i >= m - 1 THEN f[1] ELSE f[2])
                                              ELSE f[(i % 2) + 1]],
                        grid |-> <<KK[1], g, KK[m]>>, per |-> FALSE, ye |-> ye]
           \/ \E g \in GapSet, t \in {"linear", "cubic", "akima"}, p \in BOOLEAN, w \in {0, 1} :
                \* w = 1: output grid one interval wider than the input on both sides (extrapolation regions)
                /\ Chosen(Hash(n, y, f, 7 + g + (IF t = "cubic" THEN 1 ELSE 2) + (IF p THEN 3 ELSE 0) + 5 * w), ThinDov)
                /\ (t = "linear" => ~p /\ w = 1)
                /\ (t = "cubic" => n >= 3) /\ (t = "akima" => n >= 4)
                /\ c = [fam |-> "dov", type |-> t, K |-> UKnots(o, g, n),
                        Y |-> IF p THEN [y EXCEPT ![n] = y[1]] ELSE y, F |-> f,    \* periodic data: y_N = y_1
                        grid |-> <<Q * o - w * Q * g, (Q * g) \div 4, Q * (o + (n - 1) * g) + w * Q * g>>, per |-> p]
           \/ \E s \in {2, 4}, hm \in {2, 3}, t \in {"linear", "cubic"}, b \in {-3, 1} :
                \* line data y = a x + b on n+2 points of step s (a = y[1]), fit grid step hm*s, output step s or 2s
                LET XX == [i \in 1..(n + 3) |-> Q * o + (i - 1) * s] IN
                /\ Chosen(Hash(n, y, f, s + 3 * hm + b + (IF t = "cubic" THEN 1 ELSE 0)), ThinFit)
                /\ hm <= n + 2 /\ IntegerGrid(XX[1], XX[n + 3], IF y[2] >= 0 THEN s ELSE 2 * s)
                /\ c = [fam |-> "fitline", type |-> t, K |-> XX, Y |-> [i \in 1..(n + 3) |-> y[1] * XX[i] + b],
                        F |-> [i \in 1..(n + 3) |-> f[((i - 1) % n) + 1]],
                        grid |-> <<XX[1], IF y[2] >= 0 THEN s ELSE 2 * s, XX[n + 3]>>,
                        fit |-> <<XX[1], hm * s, XX[n + 3]>>, a |-> y[1], b |-> b, per |-> FALSE]
Next == ph = 0 /\ ph' = 1 /\ UNCHANGED c
Spec == Init /\ [][Next]_vars

K == c.K
Y == c.Y
F == c.F
N == Len(K)
Mn == c.grid[1]
H == c.grid[2]
Mx == c.grid[3]
Cnt == GridCount(Mn, Mx, H)
TG == TableGrid(Mn, Mx, H)
G == [i \in 1..Cnt |-> TG[i][1] \div TG[i][2]]         \* integer positions (IntegerGrid)
ExpFlags == [i \in 1..Cnt |-> SpecFlag(K, F, TG[i])]

Pairs(f) == [i \in 1..Cnt |-> f[i]]
LinVals == [i \in 1..Cnt |-> LinValue(K, Y, G[i])]
LinDers == [i \in 1..Cnt |-> LinDeriv(K, Y, G[i])]
IdVals == [i \in 1..Cnt |-> Rat(Y[i], 1)]
LineVals == [i \in 1..Cnt |-> Rat(c.a * G[i] + c.b, 1)]
LineDers == [i \in 1..Cnt |-> Rat(c.a, 1)]

\* relations between rows of the output files: <<coef, kind, row>> (kind 0 value file, 1 derivative file)
RowOf(r) == CHOOSE i \in 1..Cnt : G[i] = r
\* -> <<clause, coef, kind, row, coef, kind, row, ...>>
ToRows(rels) == [j \in 1..Len(rels) |->
                   <<rels[j].c>> \o FlatK([l \in 1..Len(rels[j].t) |->
                        <<rels[j].t[l][1], rels[j].t[l][3], RowOf(rels[j].t[l][4])>>], 3)]
FlatRat(f) == FlatK(f, 2)
Wide == Mn < K[1]
Deg == IF c.type = "linear" THEN 1 ELSE 3
DovRels == ToRows(PieceRelations(1, K, Deg, Deg = 3)
                  \o (IF Wide THEN ExtrapRelations(1, K, Deg) ELSE <<>>)
                  \o (IF c.per THEN <<PeriodicValue(1, K), PeriodicSlope(1, K)>> ELSE <<>>)
                  \o (IF c.per /\ c.type = "cubic" THEN <<PeriodicCurv(1, K)>> ELSE <<>>)
                  \o (IF ~c.per /\ c.type = "cubic" THEN NaturalEnds(1, K) ELSE <<>>))

\* ---- magnitudes and listing order (functions of the vector, so that Init stays small) -------------
Mix == Y[1] + 2 * Y[N] + 3 * N + (K[1] \div 2) + H + Cnt
ScaleTab == << <<0, 0>>, <<0, -40>>, <<0, 0>>, <<-20, 0>>, <<0, 0>>, <<0, 40>>, <<0, 0>>, <<20, 0>>, <<-20, -40>>, <<0, 0>> >>
Sc == LET e == ScaleTab[(Mix % 10) + 1] IN
      IF c.fam = "identdec" THEN <<0, e[2]>> ELSE e           \* decimal abscissae stay as they are
\* listing order of the input rows (fitline only): 0 ascending, 1 descending, 2 scrambled (stride 2 or 3), 3 two blocks
OrderKind == IF c.fam = "fitline" THEN (Mix \div 10) % 4 ELSE 0
Stride == IF N % 2 = 1 THEN 2 ELSE IF N % 3 # 0 THEN 3 ELSE 5
Listing == IF OrderKind = 0 THEN [i \in 1..N |-> i]
           ELSE IF OrderKind = 1 THEN [i \in 1..N |-> N + 1 - i]
           ELSE IF OrderKind = 2 THEN [i \in 1..N |-> (((i - 1) * Stride) % N) + 1]
           ELSE [i \in 1..N |-> IF i <= (N + 1) \div 2 THEN 2 * i - 1 ELSE 2 * (i - (N + 1) \div 2)]

Theorems == ph = 1 =>
  /\ {Listing[i] : i \in 1..N} = 1..N                       \* a permutation of the rows
  /\ IsGrid(K) /\ GridTheorems(Mn, Mx, H)
  /\ IntegerGrid(Mn, Mx, H) /\ \A i \in 1..Cnt : RatEq(TG[i], Rat(G[i], 1))
  /\ FlagTheorems(K, F, TG)                                    \* the two loops compute SpecFlag
  /\ c.fam \in {"ident", "identdec"} =>
       /\ Cnt = N
       /\ \A i \in 1..N : G[i] = K[i]
       /\ \A i \in 1..N : ExpFlags[i] = F[i]                  \* flags kept on the input grid
       /\ \A i \in 1..N : RatEq(LinValue(K, Y, G[i]), Rat(Y[i], 1))
  /\ c.fam = "dov" => LET w == IF Wide THEN 4 ELSE 0 IN
                      Cnt = 4 * (N - 1) + 1 + 2 * w /\ \A i \in 1..N : G[4 * (i - 1) + 1 + w] = K[i]
  /\ c.fam = "fitline" => /\ IsGrid(SplineGrid(c.fit[1], c.fit[3], c.fit[2]))
                          /\ LET FG == SplineGrid(c.fit[1], c.fit[3], c.fit[2]) IN
                             \A i \in 1..(Len(FG) - 1) : \E j \in 1..N : FG[i] < K[j] /\ K[j] < FG[i + 1]

Vector == (Emit /\ ph = 1) =>
  PrintT(ToJson([fam |-> c.fam, type |-> c.type, k |-> K, y |-> Y, f |-> F, grid |-> c.grid,
                 fit |-> IF c.fam = "fitline" THEN c.fit ELSE <<>>, per |-> c.per,
                 xd |-> IF c.fam = "identdec" THEN c.xd ELSE 16,
                 xs |-> Sc[1], ys |-> Sc[2], order |-> Listing,
                 ye |-> IF c.fam \in {"ident", "identdec"} THEN c.ye ELSE FALSE,
                 n |-> Cnt, x |-> G, fl |-> ExpFlags,
                 val |-> FlatRat(IF c.fam = "lin" \/ (c.fam = "ident" /\ c.type = "linear") THEN LinVals
                                 ELSE IF c.fam \in {"ident", "identdec"} THEN IdVals
                                 ELSE IF c.fam = "fitline" THEN LineVals ELSE <<>>),
                 der |-> FlatRat(IF c.fam = "lin" \/ (c.fam = "ident" /\ c.type = "linear") THEN LinDers
                                 ELSE IF c.fam = "fitline" THEN LineDers ELSE <<>>),
                 rel |-> IF c.fam = "dov" THEN DovRels ELSE <<>>]))
=============================================================================
