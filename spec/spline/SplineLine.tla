----------------------------- MODULE SplineLine -----------------------------
(* Mode L, family "line": straight-line data y = (a x + b)/cc.
   (1) interpolation with natural boundaries by all three spline types reproduces the
       line at every quarter point inside the grid (linear spline: also outside), and
       the derivative is a/cc;
   (2) a FIT (linear and cubic spline, natural boundaries) of line data given on a fine
       uniform grid x0, x0+s, .., x0+M s on the coarser fit grid
       GenerateGrid(x0, x0+M s, h) (count and points exact, last point pinned) returns
       the same line, because a line lies in every spline space.                       *)
EXTENDS SplineRel, TLC, Json

CONSTANTS NSet, GapsOf(_), OffSet, Q, ASet, BSet, CSet,   \* interpolation part
          MSet, SSet, HSet,                                \* fit part: points-1, data step, fit-grid step
          Emit
VARIABLES c, ph
vars == <<c, ph>>

RECURSIVE SumTo(_, _)
SumTo(f, n) == IF n = 0 THEN 0 ELSE f[n] + SumTo(f, n - 1)
Knots(o, g) == [i \in 1..(Len(g) + 1) |-> Q * (o + SumTo(g, i - 1))]
LineY(K, a, b, cc) == [i \in 1..Len(K) |-> (a * K[i] + b) \div cc]

Init == /\ ph = 0
        /\ \/ \E n \in NSet : \E g \in [1..(n - 1) -> GapsOf(n)], o \in OffSet, a \in ASet, b \in BSet, cc \in CSet :
                /\ IsLine(Knots(o, g), LineY(Knots(o, g), a, b, cc), a, b, cc)
                /\ c = [kind |-> "interp", K |-> Knots(o, g), a |-> a, b |-> b, cc |-> cc]
           \/ \E m \in MSet, s \in SSet, h \in HSet, o \in OffSet, a \in ASet, b \in BSet, cc \in CSet :
                LET X == [i \in 1..(m + 1) |-> Q * o + (i - 1) * s] IN
                /\ h >= 2 * s /\ h <= m * s        \* every fit interval holds a data point strictly inside
                /\ IsLine(X, LineY(X, a, b, cc), a, b, cc)
                /\ c = [kind |-> "fit", K |-> X, a |-> a, b |-> b, cc |-> cc, h |-> h]
Next == ph = 0 /\ ph' = 1 /\ UNCHANGED c
Spec == Init /\ [][Next]_vars

K == c.K
N == Len(K)
Y == LineY(K, c.a, c.b, c.cc)
LV(r) == LineValue(c.a, c.b, c.cc, r)
LD == LineDeriv(c.a, c.cc)

\* ---- (1) interpolation ---------------------------------------------------------------
IInst(t, api) == [t |-> t, b |-> 0, api |-> api, op |-> "interp", d |-> 1]
IInsts == <<IInst("lin", "i")>> \o (IF N >= 3 THEN <<IInst("cubic", "e")>> ELSE <<>>)
                                 \o (IF N >= 4 THEN <<IInst("akima", "i")>> ELSE <<>>)
OnLine(s, P) ==
  Flatten([j \in 1..Len(P) |-> << <<s, 0, P[j], LV(P[j])[1], LV(P[j])[2]>>, <<s, 1, P[j], LD[1], LD[2]>> >>])
IExact == OnLine(1, QuarterPoints(K) \o OutsidePoints(K))
          \o (IF N >= 3 THEN OnLine(2, QuarterPoints(K)) ELSE <<>>)
          \o (IF N >= 4 THEN OnLine(3, QuarterPoints(K)) ELSE <<>>)

\* ---- (2) fit ----------------------------------------------------------------------------
FitGrid == SplineGrid(K[1], K[N], c.h)
FInst(t, api) == [t |-> t, b |-> 0, api |-> api, op |-> "fit", d |-> 1,
                  gg |-> <<K[1], K[N], c.h>>, g |-> FitGrid]
FInsts == <<FInst("lin", "e"), FInst("cubic", "i")>>
\* data points, fit-grid points and a point between the first two data points
FPts == K \o FitGrid \o <<K[1] + 1>>
FExact == OnLine(1, FPts \o <<K[1] - 5, K[N] + 3>>) \o OnLine(2, FPts)

Theorems == ph = 1 =>
  /\ IsGrid(K) /\ IsLine(K, Y, c.a, c.b, c.cc)
  /\ c.kind = "interp" =>
       \A j \in 1..Len(QuarterPoints(K) \o OutsidePoints(K)) :
          LineTheorems(K, c.a, c.b, c.cc, (QuarterPoints(K) \o OutsidePoints(K))[j])
  /\ c.kind = "fit" =>
       /\ GridTheorems(K[1], K[N], c.h)
       /\ IsGrid(FitGrid)
       \* the line restricted to the fit grid is interpolated by the linear spline on that grid: it lies in the space
       /\ \A j \in 1..N : LET G == FitGrid IN
            RatEq(LinValue(G, [i \in 1..Len(G) |-> c.a * G[i] + c.b], K[j]), Rat(c.a * K[j] + c.b, 1))
       \* every fit interval contains a data point strictly inside (well-posed least squares)
       /\ \A i \in 1..(Len(FitGrid) - 1) : \E j \in 1..N : FitGrid[i] < K[j] /\ K[j] < FitGrid[i + 1]

Vector == (Emit /\ ph = 1) =>
  PrintT(ToJson([fam |-> "line:" \o c.kind, data |-> <<[k |-> K, y |-> Y]>>,
                 inst |-> IF c.kind = "interp" THEN IInsts ELSE FInsts,
                 exact |-> CompactExact(IF c.kind = "interp" THEN IExact ELSE FExact),
                 rel |-> <<>>]))
=============================================================================
