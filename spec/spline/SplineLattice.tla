--------------------------- MODULE SplineLattice ---------------------------
(* Property C12, exact part.  Everything lives on an integer lattice:
     abscissae   x = k / XD   (k integer; knots are multiples of Q so that every
                               interval has quarter points that are lattice points)
     ordinates   y = v / YD   (v integer)
   Rational results are pairs <<num, den>> (den > 0), never reduced; the harness
   divides.  Knot and ordinate vectors are 1-based sequences; interval numbers are
   0-based like in the code (interval i = [r_i, r_{i+1}], i = 0..N-2).

   Each notion appears as a declarative operator (Spec...) taken from the property
   statement and, where the code has case analysis of its own, as a transcription
   (Algo...); the theorems at the end of each section are what TLC checks on every
   enumerated point (see SplineEval, SplineLine, TableOps, Resample).               *)
EXTENDS Integers, Sequences, FiniteSets, CArith

Rat(n, d) == <<n, d>>
RatEq(p, q) == p[1] * q[2] = q[1] * p[2]
RatLe(p, q) == p[1] * q[2] <= q[1] * p[2]          \* denominators positive
RatLt(p, q) == p[1] * q[2] < q[1] * p[2]
RatInt(k) == <<k, 1>>

IsGrid(K) == Len(K) >= 2 /\ \A i \in 1..(Len(K) - 1) : K[i] < K[i + 1]
Gap(K, i) == K[i + 2] - K[i + 1]                    \* width of interval i (0-based)

(* ---------------------------------------------------------------------------
   1. interval selection, Spline::getInterval
   --------------------------------------------------------------------------- *)
\* declarative: the interval that contains r, the first one below the grid and the
\* last one at and above the last knot (so that every real r has exactly one interval)
SpecInterval(K, r) ==
  LET N == Len(K) IN
  IF r < K[1] THEN 0
  ELSE IF r >= K[N] THEN N - 2
  ELSE (CHOOSE i \in 1..(N - 1) : K[i] <= r /\ r < K[i + 1]) - 1

\* transcription of spline.cc:getInterval (r_[i] is K[i+1])
AlgoInterval(K, r) ==
  LET N == Len(K)
      RECURSIVE Scan(_)
      Scan(i) == IF i >= N THEN i ELSE IF K[i + 1] > r THEN i ELSE Scan(i + 1)
  IN  IF r < K[1] THEN 0
      ELSE IF r > K[N - 1] THEN N - 2
      ELSE Scan(0) - 1

IntervalTheorems(K, r) ==
  /\ AlgoInterval(K, r) = SpecInterval(K, r)
  /\ SpecInterval(K, r) \in 0..(Len(K) - 2)                     \* memory safety of every coefficient access
  /\ LET i == SpecInterval(K, r) IN
       (K[1] <= r /\ r <= K[Len(K)]) => (K[i + 1] <= r /\ r <= K[i + 2])

(* ---------------------------------------------------------------------------
   2. grid generation: Spline::GenerateGrid (fit grids) and
      Table::GenerateGridSpacing (output grid of csg_resample)
   --------------------------------------------------------------------------- *)
\* (Index)((max-min)/h + 1.00000001): on the lattice the quotient is a rational whose
\* fractional part is never within 1e-8 of 1, so this is floor(quotient) + 1
GridCount(mn, mx, h) == (mx - mn) \div h + 1

\* points mn, mn+h, ... and the LAST one pinned to mx (the last interval may be longer)
SplineGrid(mn, mx, h) ==
  LET n == GridCount(mn, mx, h) IN [i \in 1..n |-> IF i = n THEN mx ELSE mn + (i - 1) * h]

\* n evenly distributed points from mn to mx (spacing stretched to (mx-mn)/(n-1)), last = mx
TableGrid(mn, mx, h) ==
  LET n == GridCount(mn, mx, h) IN
  [i \in 1..n |-> IF i = n THEN Rat(mx, 1) ELSE Rat(mn * (n - 1) + (i - 1) * (mx - mn), n - 1)]

GridTheorems(mn, mx, h) ==
  LET n == GridCount(mn, mx, h)
      S == SplineGrid(mn, mx, h)
      T == TableGrid(mn, mx, h)
  IN  /\ n >= 1 /\ Len(S) = n /\ Len(T) = n
      /\ S[n] = mx /\ RatEq(T[n], Rat(mx, 1))                        \* end point pinned
      /\ n >= 2 => (S[1] = mn /\ RatEq(T[1], Rat(mn, 1)))            \* start point
      /\ \A i \in 1..(n - 1) : S[i] < S[i + 1] /\ RatLt(T[i], T[i + 1])
      /\ \A i \in 1..(n - 2) : S[i + 1] - S[i] = h                   \* all but the last interval have width h
      /\ n >= 2 => (h <= S[n] - S[n - 1] /\ S[n] - S[n - 1] < 2 * h)
      /\ (mx - mn) % h = 0 => \A i \in 1..n : RatEq(T[i], Rat(S[i], 1)) /\ S[i] = mn + (i - 1) * h

(* ---------------------------------------------------------------------------
   3. linear spline: complete model (value and derivative everywhere, including
      the linear continuation of the first/last chord outside the grid)
   --------------------------------------------------------------------------- *)
\* value at r of the chord through (x_i, y_i), (x_{i+1}, y_{i+1}) (interval i, 0-based)
ChordValue(K, Y, i, r) ==
  Rat(Y[i + 1] * Gap(K, i) + (Y[i + 2] - Y[i + 1]) * (r - K[i + 1]), Gap(K, i))
LinValue(K, Y, r) == ChordValue(K, Y, SpecInterval(K, r), r)
LinDeriv(K, Y, r) ==
  LET i == SpecInterval(K, r) IN Rat(Y[i + 2] - Y[i + 1], Gap(K, i))

\* the same through the coefficients the code stores: a(i), b(i) = y(i) - a(i) x(i), value a(i) r + b(i)
AlgoLinValue(K, Y, r) ==
  LET i == AlgoInterval(K, r)
      a == Rat(Y[i + 2] - Y[i + 1], Gap(K, i))
      b == Rat(Y[i + 1] * a[2] - a[1] * K[i + 1], a[2])
  IN  Rat(a[1] * r + b[1], a[2])

KnotValue(Y, i) == Rat(Y[i], 1)                       \* all three spline types: S(x_i) = y_i

\* straight-line data y = (a x + b)/c  (c > 0 so that slopes a/c are not integers only)
IsLine(K, Y, a, b, c) == \A i \in 1..Len(K) : c * Y[i] = a * K[i] + b
LineValue(a, b, c, r) == Rat(a * r + b, c)
LineDeriv(a, c) == Rat(a, c)

LinTheorems(K, Y, r) ==
  LET N == Len(K) IN
  /\ RatEq(AlgoLinValue(K, Y, r), LinValue(K, Y, r))
  /\ \A i \in 1..N : RatEq(LinValue(K, Y, K[i]), KnotValue(Y, i))           \* interpolates
  \* continuity: the chord left of an interior knot ends where the chord right of it starts
  /\ \A i \in 2..(N - 1) : RatEq(ChordValue(K, Y, i - 2, K[i]), ChordValue(K, Y, i - 1, K[i]))
  \* inside the grid the value is a convex combination of the two neighbouring ordinates
  /\ (K[1] <= r /\ r <= K[N]) =>
       LET i == SpecInterval(K, r)
           lo == Min2(Y[i + 1], Y[i + 2])
           hi == Max2(Y[i + 1], Y[i + 2])
       IN  RatLe(Rat(lo, 1), LinValue(K, Y, r)) /\ RatLe(LinValue(K, Y, r), Rat(hi, 1))

LineTheorems(K, a, b, c, r) ==
  LET Y == [i \in 1..Len(K) |-> (a * K[i] + b) \div c] IN
  IsLine(K, Y, a, b, c) =>
     /\ RatEq(LinValue(K, Y, r), LineValue(a, b, c, r))      \* also outside the grid
     /\ RatEq(LinDeriv(K, Y, r), LineDeriv(a, c))

(* ---------------------------------------------------------------------------
   4. Table::Smooth, n passes of y_i <- (y_{i-1} + 2 y_i + y_{i+1})/4 with both end
      points untouched; exact when scaled by 4^n
   --------------------------------------------------------------------------- *)
RECURSIVE Pow4(_)
Pow4(n) == IF n = 0 THEN 1 ELSE 4 * Pow4(n - 1)

SmoothOnce(Y) ==
  [i \in 1..Len(Y) |-> IF i = 1 \/ i = Len(Y) THEN 4 * Y[i] ELSE Y[i - 1] + 2 * Y[i] + Y[i + 1]]
RECURSIVE SmoothN(_, _)
SmoothN(Y, n) == IF n = 0 THEN Y ELSE SmoothOnce(SmoothN(Y, n - 1))     \* = 4^n * Smooth^n(Y)

SeqMin(Y) == CHOOSE m \in {Y[i] : i \in 1..Len(Y)} : \A i \in 1..Len(Y) : m <= Y[i]
SeqMax(Y) == CHOOSE m \in {Y[i] : i \in 1..Len(Y)} : \A i \in 1..Len(Y) : m >= Y[i]
IsArithmetic(Y) == \A i \in 2..(Len(Y) - 1) : Y[i + 1] - Y[i] = Y[i] - Y[i - 1]

SmoothTheorems(Y, Z, n) ==
  LET S == SmoothN(Y, n)
      p == Pow4(n)
      L == Len(Y)
  IN  /\ Len(S) = L
      /\ S[1] = p * Y[1] /\ S[L] = p * Y[L]                                   \* end points kept
      /\ IsArithmetic(Y) => \A i \in 1..L : S[i] = p * Y[i]                   \* straight lines unchanged
      /\ \A i \in 1..L : p * SeqMin(Y) <= S[i] /\ S[i] <= p * SeqMax(Y)       \* averaging: no new extrema
      /\ Len(Z) = L =>
           LET W == SmoothN([i \in 1..L |-> Y[i] + Z[i]], n)
               T == SmoothN(Z, n)
           IN \A i \in 1..L : W[i] = S[i] + T[i]                              \* linear operator

(* ---------------------------------------------------------------------------
   5. csg_resample: flag of an output point
   --------------------------------------------------------------------------- *)
\* declarative: "o" outside the input range, otherwise the flag of the first input
\* point at or after the output point (x rational)
SpecFlag(K, F, x) ==
  LET N == Len(K) IN
  IF RatLt(x, Rat(K[1], 1)) \/ RatLt(Rat(K[N], 1), x) THEN "o"
  ELSE F[CHOOSE j \in 1..N : /\ RatLe(x, Rat(K[j], 1))
                              /\ \A l \in 1..(j - 1) : RatLt(Rat(K[l], 1), x)]

\* transcription of the two loops in csg_resample.cc (G = output grid, rationals)
AlgoFlags(K, F, G) ==
  LET N == Len(K)
      M == Len(G)
      RECURSIVE Skip(_)
      Skip(i) == IF i <= M /\ RatLt(G[i], Rat(K[1], 1)) THEN Skip(i + 1) ELSE i
      RECURSIVE Adv(_, _)
      Adv(j, x) == IF j <= N /\ ~RatLe(x, Rat(K[j], 1)) THEN Adv(j + 1, x) ELSE j
      RECURSIVE Run(_, _, _)
      Run(i, j, out) ==
        IF i > M THEN out
        ELSE LET j2 == Adv(j, G[i]) IN
             IF j2 > N THEN out ELSE Run(i + 1, j2, [out EXCEPT ![i] = F[j2]])
  IN  Run(Skip(1), 1, [i \in 1..M |-> "o"])

FlagTheorems(K, F, G) ==
  LET A == AlgoFlags(K, F, G) IN \A i \in 1..Len(G) : A[i] = SpecFlag(K, F, G[i])
=============================================================================
