SPECIFICATION Spec
CONSTANTS
  NSet <- MCN
  GapsOf <- MCGaps
  OffSet <- MCOff
  ASet <- MCA
  BSet <- MCB
  CSet = {1, 2, 8}
  MSet = {4, 5, 6, 9, 12, 25}
  SSet = {2, 4, 8}
  HSet = {4, 6, 8, 12, 16, 20, 24, 40}
  Q = 8
  Emit = TRUE
INVARIANTS Theorems Vector
CHECK_DEADLOCK FALSE
