SPECIFICATION Spec
CONSTANTS
  MinSet <- MCMin
  SpanSet = {0, 1, 7, 8, 16, 20, 35, 36, 40, 100, 1000}
  StepSet = {1, 2, 3, 8, 10, 12, 16}
  LenSet = {2, 3, 4, 5, 6, 7}
  YsOf <- MCYs
  PassSet = {0, 1, 2, 3, 4}
  ZSeqs <- MCZ
  Emit = TRUE
INVARIANTS Theorems Vector
CHECK_DEADLOCK FALSE
