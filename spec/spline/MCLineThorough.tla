---- MODULE MCLineThorough ----
EXTENDS SplineLine
MCN == {2, 3, 4, 5, 6}
MCGaps(n) == IF n <= 5 THEN {1, 2, 3} ELSE {1, 2}
MCOff == {-3, 0, 5}
MCA == {-3, -2, -1, 0, 1, 2, 5}
MCB == {-8, 0, 24}
====
