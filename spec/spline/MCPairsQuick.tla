---- MODULE MCPairsQuick ----
EXTENDS SplinePairs
MCN == {3, 4}
MCGaps(n) == IF n <= 3 THEN {1, 2} ELSE {1, 3}
MCYs(n) == IF n <= 3 THEN {-3, 0, 1, 2} ELSE {-2, 1}
MCY2(n) == {[i \in 1..n |-> IF i = j THEN 1 ELSE 0] : j \in {1, n - 1}} \cup {[i \in 1..n |-> i * i - 3]}
MCOff(n) == {-1}
MCMul == {-2}
====
