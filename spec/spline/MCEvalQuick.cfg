SPECIFICATION Spec
CONSTANTS
  NSet <- MCN
  GapsOf <- MCGaps
  YsOf <- MCYs
  OffsOf <- MCOff
  LongN <- MCLong
  Q = 8
  Emit = TRUE
INVARIANTS Theorems Vector
CHECK_DEADLOCK FALSE
