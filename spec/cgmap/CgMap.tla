------------------------------- MODULE CgMap -------------------------------
(* C01: the coarse-grained mapping as an exact integer/rational function of one
   atomistic frame, and a history machine around it.

   Lattice: positions and box entries in units of 1/8 nm (as in Pbc.tla); velocities
   and forces small integers; weights w and force coefficients d small non-negative
   integers; masses integers.

   A mapping definition md is a record
       n      number of atoms of the molecule type (named A1..An)
       mass   sequence of the n atom masses
       beads  sequence of CG bead definitions
                 [par |-> sequence of atom indices (first entry = first parent),
                  w   |-> sequence of weights, d |-> sequence of d coefficients or <<>>,
                  sym |-> 1 (spherical) | 3 (ellipsoidal)]
   BeadOut is the meaning of the property statement for one CG bead:
       u_j    = r_0 + (the shortest periodic image of r_j - r_0)          (Pbc!SpecMI)
       pos    = sum_j w_j u_j / W,           W = sum_j w_j
       vel    = sum_j w_j v_j / W            over parents that carry a velocity
       F      = sum_j (d_j / D) / (w_j / W) f_j = fnum / fden,  D = sum_j d_j,
                d = w when no d is given (each parent with w_j # 0 then counts once;
                a parent with w_j = 0 has d_j = 0 and does not contribute)
       mass   = sum_j m_j
       err    = "yes" if some parent is farther than half the shortest box height from the
                first parent ("either" if exactly at half: the code compares rounded
                square roots there; nothing is asserted at that point), never for an open box.
   The box type is the auto-detected one (TopologyMap::Apply hands the matrix to
   Topology::setBox of the CG topology without a type).                             *)
EXTENDS Pbc, TLC, Json

\* ---- one CG bead ------------------------------------------------------------------
SeqSum(s) == SumRange(s, 1, Len(s))
RECURSIVE LcmNonZero(_, _)
LcmNonZero(s, j) == IF j > Len(s) THEN 1
                    ELSE IF s[j] = 0 THEN LcmNonZero(s, j + 1)
                    ELSE Lcm(s[j], LcmNonZero(s, j + 1))

HasV(fl, i) == fl.hv = "all" \/ (fl.hv = "first" /\ i = 1) \/ (fl.hv = "notfirst" /\ i # 1)
HasF(fl, i) == fl.hf = "all" \/ (fl.hf = "first" /\ i = 1) \/ (fl.hf = "notfirst" /\ i # 1)

\* Map_Sphere::Initialize refuses a non-zero d on a zero weight
InitError(bd) == bd.d # <<>> /\ \E j \in 1..Len(bd.w) : bd.w[j] = 0 /\ bd.d[j] # 0

BeadOut(B, md, bd, P, Vv, Ff, fl) ==
  LET par == bd.par
      np == Len(par)
      w == bd.w
      W == SeqSum(w)
      dd == IF bd.d = <<>> THEN w ELSE bd.d
      D == SeqSum(dd)
      L == LcmNonZero(w, 1)
      per == AutoType(B) # "open"
      r0 == P[par[1]]
      rel == [j \in 1..np |-> VSub(P[par[j]], r0)]
      \* (TLCEval: evaluate once; TLC would otherwise re-evaluate a function body per application)
      mi == TLCEval([j \in 1..np |-> IF per THEN SpecMI(B, rel[j])
                                    ELSE [d2 |-> Norm2(rel[j]), mins |-> {rel[j]}, cert |-> TRUE, nimg |-> 1]])
      cls == TLCEval([j \in 1..np |-> IF ~per \/ BelowHalfHeight(B, mi[j].d2) THEN "below"
                              ELSE IF AboveHalfHeight(B, mi[j].d2) THEN "above" ELSE "edge"])
      RECURSIVE Cands(_)
      Cands(j) == IF j > np THEN {Zero3}
                  ELSE {VAdd(VScale(w[j], VAdd(r0, m)), rest) : m \in mi[j].mins, rest \in Cands(j + 1)}
      \* unwrapped parents (unique images when every parent is "below")
      uu == TLCEval([j \in 1..np |-> VAdd(r0, CHOOSE m \in mi[j].mins : TRUE)])
      \* ellipsoidal beads: n^2 * (gyration tensor of the unwrapped parents with non-zero weight),
      \* n = number of such parents:  G = sum_j q_j q_j^T,  q_j = n u_j - sum_k u_k
      gsel == {j \in 1..np : w[j] > 0}
      gn == Cardinality(gsel)
      gS == VSumRange([j \in 1..np |-> IF j \in gsel THEN uu[j] ELSE Zero3], 1, np)
      gq == [j \in 1..np |-> VSub(VScale(gn, uu[j]), gS)]
      G(a, b) == SumRange([j \in 1..np |-> IF j \in gsel THEN gq[j][a] * gq[j][b] ELSE 0], 1, np)
      vsel == {j \in 1..np : HasV(fl, par[j])}
      fsel == {j \in 1..np : HasF(fl, par[j])}
  IN [err |-> IF ~fl.hp THEN "no"
              ELSE IF \E j \in 1..np : cls[j] = "above" THEN "yes"
              ELSE IF \E j \in 1..np : cls[j] = "edge" THEN "either" ELSE "no",
      W |-> W,
      hasPos |-> fl.hp,
      cands |-> IF fl.hp THEN Cands(1) ELSE {},            \* admissible values of W * pos
      hasVel |-> vsel # {},
      velnum |-> VSumRange([j \in 1..np |-> IF j \in vsel THEN VScale(w[j], Vv[par[j]]) ELSE Zero3], 1, np),
      hasF |-> fsel # {},
      fnum |-> VSumRange([j \in 1..np |-> IF j \in fsel /\ w[j] # 0
                                             THEN VScale(W * dd[j] * (L \div w[j]), Ff[par[j]]) ELSE Zero3], 1, np),
      fden |-> D * L,
      mass |-> SumRange([j \in 1..np |-> md.mass[par[j]]], 1, np),
      cert |-> \A j \in 1..np : mi[j].cert,
      \* unwrapped parents (only meaningful when every parent is "below": unique images)
      u |-> uu,
      \* orientation data of an ellipsoidal bead with >= 3 parents (documentation of Bead::getU/V/W):
      \* d2, d3 = vectors from the first to the second / third unwrapped parent, G as above
      ell |-> IF bd.sym = 3 /\ np >= 3
              THEN [on |-> TRUE, d2 |-> VSub(uu[2], uu[1]), d3 |-> VSub(uu[3], uu[1]),
                    G |-> << <<G(1, 1), G(1, 2), G(1, 3)>>, <<G(2, 1), G(2, 2), G(2, 3)>>, <<G(3, 1), G(3, 2), G(3, 3)>> >>]
              ELSE [on |-> FALSE, d2 |-> Zero3, d3 |-> Zero3, G |-> <<Zero3, Zero3, Zero3>>],
      cls |-> cls]

MolOut(B, md, P, Vv, Ff, fl) == [b \in 1..Len(md.beads) |-> BeadOut(B, md, md.beads[b], P, Vv, Ff, fl)]
FrameErr(outs) == IF \E b \in 1..Len(outs) : outs[b].err = "yes" THEN "yes"
                  ELSE IF \E b \in 1..Len(outs) : outs[b].err = "either" THEN "either" ELSE "no"

\* ---- the same bead as the code computes it (transcription of Map_Sphere::Apply's use of
\* ---- BCShortestConnection: u_j = r_0 + AlgoMI) ---------------------------------------------
AlgoU(B, bd, P, j) == VAdd(P[bd.par[1]], AlgoMI(B, AutoType(B), VSub(P[bd.par[j]], P[bd.par[1]])))
=============================================================================
