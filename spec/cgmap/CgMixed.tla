------------------------------- MODULE CgMixed -------------------------------
(* C01, mode L: one atomistic topology with molecules of SEVERAL types, mapped with several
   CG molecule definitions loaded from a ';'-separated list (CGEngine::LoadMoleculeType),
   a type that is ignored (CGEngine::AddIgnore, csg_map --map-ignore) or has no definition
   (not mapped, warning).  The CG topology is the concatenation, in the order of the
   atomistic molecules, of the beads of every mapped molecule, each computed by CgMap!MolOut
   from its own atoms; ignored / unknown molecules contribute nothing.
   Molecule k is the configuration translated by (k-1)*T2; molecules at even places have
   their atoms scattered over periodic images (K2).  The runner replays the vector twice:
   on the first CG topology and on a second one created by the SAME CGEngine (reuse).   *)
EXTENDS CgMap, Sequences

CONSTANTS MapDefs, Patterns, Boxes, Confs, Base, Emit
VARIABLES mdA, mdB, ign, pat, box, conf, ph
vars == <<mdA, mdB, ign, pat, box, conf, ph>>

T2 == <<3, -2, 5>>
K2 == << <<0, 0, 0>>, <<1, 0, -1>>, <<-2, 1, 0>>, <<0, -1, 3>> >>
FlAll == [hp |-> TRUE, hv |-> "all", hf |-> "all"]
NX == 2                                   \* atoms of a molecule of the unmapped type X
NAtoms(t) == IF t = "A" THEN mdA.n ELSE IF t = "B" THEN mdB.n ELSE NX
PosK(k, n) == [i \in 1..n |->
                 LET p == VAdd(VAdd(Base, conf.off[i]), VScale(k - 1, T2))
                 IN IF k % 2 = 0 THEN Image(box, p, K2[i]) ELSE p]
Cut(s, n) == [i \in 1..n |-> s[i]]

OutJson(o) == [err |-> o.err, W |-> o.W, hasPos |-> o.hasPos, cands |-> o.cands,
               hasVel |-> o.hasVel, velnum |-> o.velnum,
               hasF |-> o.hasF, fnum |-> o.fnum, fden |-> o.fden, mass |-> o.mass, ell |-> o.ell]
MolRec(k) ==
  LET t == pat[k]
      n == NAtoms(t)
      P == PosK(k, n)
      md == IF t = "A" THEN mdA ELSE mdB
      outs == IF t = "X" THEN <<>> ELSE MolOut(box, md, P, Cut(conf.vel, n), Cut(conf.frc, n), FlAll)
  IN [type |-> t, n |-> n, pos |-> P, vel |-> Cut(conf.vel, n), frc |-> Cut(conf.frc, n),
      mass |-> IF t = "X" THEN [i \in 1..n |-> 1] ELSE md.mass,
      err |-> IF t = "X" THEN "no" ELSE FrameErr(outs),
      cert |-> \A b \in 1..Len(outs) : outs[b].cert,
      out |-> [b \in 1..Len(outs) |-> OutJson(outs[b])]]
Mols == [k \in 1..Len(pat) |-> MolRec(k)]
FrameErrAll(ms) == IF \E k \in 1..Len(ms) : ms[k].err = "yes" THEN "yes"
                   ELSE IF \E k \in 1..Len(ms) : ms[k].err = "either" THEN "either" ELSE "no"

Init == /\ mdA \in MapDefs /\ mdB \in MapDefs /\ mdA # mdB
        /\ ph = 0 /\ ign = FALSE /\ pat = <<>> /\ box = ZeroBox /\ conf \in Confs
Next == /\ ph = 0 /\ ph' = 1
        /\ ign' \in BOOLEAN /\ pat' \in Patterns /\ box' \in Boxes
        /\ UNCHANGED <<mdA, mdB, conf>>
Spec == Init /\ [][Next]_vars

InvCert == ph = 1 => \A k \in 1..Len(pat) : Mols[k].cert
\* an ignored / unknown molecule never causes a rejection and never contributes beads
InvX == ph = 1 => \A k \in 1..Len(pat) : pat[k] = "X" => (Mols[k].out = <<>> /\ Mols[k].err = "no")
Vector == (ph = 1 /\ Emit) =>
  LET ms == TLCEval(Mols) IN
  PrintT(ToJson([mdA |-> mdA, mdB |-> mdB, ign |-> ign, pat |-> pat, box |-> <<box.a, box.b, box.c>>,
                 typ |-> AutoType(box), mols |-> ms, err |-> FrameErrAll(ms)]))
=============================================================================
