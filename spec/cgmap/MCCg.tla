---- MODULE MCCg ----
EXTENDS CgHist, CgSets
====
