SPECIFICATION Spec
CONSTANTS
  MapDefs <- MCMapDefs
  FlagSet <- MCFlagsAll
  Boxes <- MCBoxes
  Confs <- MCConfs
  Bases <- MCBases
  KSet <- MCKSet
  TSet <- MCTSet
  Depth = 1
  Emit = FALSE
  Theorems = TRUE
INVARIANTS InvCert InvUnique InvOpen InvMass ThImage ThFirst ThTranslate ThHull ThAlgo
CHECK_DEADLOCK FALSE
