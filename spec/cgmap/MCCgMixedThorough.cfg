SPECIFICATION Spec
CONSTANTS
  MapDefs <- MCMixDefs
  Patterns <- MCPatterns
  Boxes <- MCBoxes
  Confs <- MCConfs
  Base <- MCMixBase
  Emit = TRUE
INVARIANTS InvCert InvX Vector
CHECK_DEADLOCK FALSE
