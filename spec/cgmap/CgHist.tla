------------------------------- MODULE CgHist -------------------------------
(* Mode H around CgMap: an atomistic topology with a fixed mapping definition is fed
   a sequence of frames; after every modification TopologyMap::Apply() is called.
     LoadFrame     a new frame: (possibly different) box, new coordinates/velocities/forces
     ShiftParent   one atom is displaced by an integer combination of the box vectors
     TranslateAll  rigid translation of all atoms
     ChangeMass    the mass of an atom is changed after the map was created
   Every step appends to the history h the complete input of the Apply call and the
   expected observation (per CG bead, for both molecules of the topology, and the CG
   box), so that the history can be replayed into the real TopologyMap.
   The second molecule of the topology is the first one translated by T2 with its atoms
   scattered over different periodic images (K2).
   With Theorems = TRUE the invariants below also evaluate the statement's consequences
   (image invariance, translation covariance, convex hull, error <=> too big, agreement
   with the transcription of the code) on every reached frame.                     *)
EXTENDS CgMap, Sequences

CONSTANTS MapDefs,      \* set of mapping definitions
          FlagSet,      \* set of [hp, hv, hf]
          Boxes,        \* set of boxes (Pbc!Box records, ZeroBox = open)
          Confs,        \* set of configurations: [off |-> seq of 4 offsets, vel |-> seq, frc |-> seq]
          Bases,        \* set of positions of atom 1
          KSet, TSet,   \* image shifts, translations
          Depth, Emit, Theorems
VARIABLES md, fl, box, pos, vel, frc, mass, h
vars == <<md, fl, box, pos, vel, frc, mass, h>>

NewMass == 9
T2 == <<3, -2, 5>>
K2 == << <<0, 0, 0>>, <<1, 0, -1>>, <<-2, 1, 0>>, <<0, -1, 3>> >>
Pos2(B, P) == [i \in 1..Len(P) |-> Image(B, VAdd(P[i], T2), K2[i])]

PosOf(c, base, n) == [i \in 1..n |-> VAdd(base, c.off[i])]
Cut(s, n) == [i \in 1..n |-> s[i]]

OutJson(o) == [err |-> o.err, W |-> o.W, hasPos |-> o.hasPos, cands |-> o.cands,
               hasVel |-> o.hasVel, velnum |-> o.velnum,
               hasF |-> o.hasF, fnum |-> o.fnum, fden |-> o.fden, mass |-> o.mass, ell |-> o.ell]
\* mm = the CURRENT masses of the atoms (the same in both molecules): the mass of a CG bead is the
\* sum of the current parent masses, also when a mass was changed after the map was created
Rec(op, arg, B, P, Vv, Ff, ff, mm) ==
  LET mdm == [md EXCEPT !.mass = mm]
      o1 == MolOut(B, mdm, P, Vv, Ff, ff)
      o2 == MolOut(B, mdm, Pos2(B, P), Vv, Ff, ff)
  IN [op |-> op, arg |-> arg, fl |-> ff, mass |-> mm, box |-> <<B.a, B.b, B.c>>, typ |-> AutoType(B),
      pos |-> P, pos2 |-> Pos2(B, P), vel |-> Vv, frc |-> Ff,
      err |-> FrameErr(o1 \o o2),
      out |-> [b \in 1..Len(o1) |-> OutJson(o1[b])],
      out2 |-> [b \in 1..Len(o2) |-> OutJson(o2[b])]]

\* the flags (which atoms carry positions / velocities / forces) belong to the frame: a
\* trajectory may have velocities or forces in some frames only
Init == /\ md \in MapDefs
        /\ fl = [hp |-> TRUE, hv |-> "none", hf |-> "none"]
        \* a mass may already have been changed between CreateCGTopology and the first Apply
        /\ mass \in {md.mass, [md.mass EXCEPT ![1] = NewMass]}
        /\ box = ZeroBox /\ pos = <<>> /\ vel = <<>> /\ frc = <<>>
        /\ h = <<>>

LoadFrame == \E B \in Boxes, c \in Confs, base \in Bases, ff \in FlagSet :
               /\ box' = B
               /\ fl' = ff
               /\ pos' = PosOf(c, base, md.n)
               /\ vel' = Cut(c.vel, md.n)
               /\ frc' = Cut(c.frc, md.n)
               /\ h' = Append(h, Rec("load", 0, B, pos', vel', frc', ff, mass))
               /\ UNCHANGED mass
ShiftParent == /\ h # <<>> /\ ~IsZeroBox(box)
               /\ \E i \in 1..md.n, k \in KSet :
                    /\ pos' = [pos EXCEPT ![i] = Image(box, @, k)]
                    /\ h' = Append(h, Rec("shift", i, box, pos', vel, frc, fl, mass))
               /\ UNCHANGED <<box, vel, frc, fl, mass>>
TranslateAll == /\ h # <<>>
                /\ \E t \in TSet :
                     /\ pos' = [i \in 1..md.n |-> VAdd(pos[i], t)]
                     /\ h' = Append(h, Rec("trans", 0, box, pos', vel, frc, fl, mass))
                /\ UNCHANGED <<box, vel, frc, fl, mass>>
\* the mass of one atom (in every molecule) is changed through the public API (Bead::setMass)
\* between two Apply calls; everything else stays
ChangeMass == /\ h # <<>>
              /\ \E i \in 1..md.n :
                   /\ mass' = [mass EXCEPT ![i] = IF @ = NewMass THEN NewMass + 4 ELSE NewMass]
                   /\ h' = Append(h, Rec("mass", i, box, pos, vel, frc, fl, mass'))
              /\ UNCHANGED <<box, pos, vel, frc, fl>>
MdInitError == \E b \in 1..Len(md.beads) : InitError(md.beads[b])
Next == /\ Len(h) < Depth
        /\ ~MdInitError           \* such a mapping is refused when the map is created
        /\ (LoadFrame \/ ShiftParent \/ TranslateAll \/ ChangeMass)
        /\ UNCHANGED md
Spec == Init /\ [][Next]_vars

\* ---- properties ------------------------------------------------------------------------
Fr == h # <<>>
CurOut == MolOut(box, [md EXCEPT !.mass = mass], pos, vel, frc, fl)
NB == Len(md.beads)
\* the certified image window of Pbc!SpecMI (see Pbc.tla)
InvCert == LET Cur == TLCEval(CurOut) IN Fr => \A b \in 1..NB : Cur[b].cert
\* not too big  =>  exactly one admissible position
InvUnique == LET Cur == TLCEval(CurOut) IN Fr => \A b \in 1..NB : (fl.hp /\ Cur[b].err = "no") => Cardinality(Cur[b].cands) = 1
\* never an error for an open box
InvOpen == LET Cur == TLCEval(CurOut) IN (Fr /\ IsZeroBox(box)) => \A b \in 1..NB : Cur[b].err = "no"
InvMass == LET Cur == TLCEval(CurOut) IN Fr => \A b \in 1..NB : Cur[b].mass > 0 /\ Cur[b].W > 0 /\ Cur[b].fden > 0

OkB(o) == fl.hp /\ o.err = "no"
PosNum(o) == CHOOSE c \in o.cands : TRUE
\* moving a non-first parent by whole box vectors leaves the bead unchanged
ThImage == LET Cur == TLCEval(CurOut) IN (Fr /\ Theorems /\ ~IsZeroBox(box)) =>
  \A b \in 1..NB : OkB(Cur[b]) =>
    \A j \in 2..Len(md.beads[b].par), k \in KSet :
      LET i == md.beads[b].par[j]
          o == BeadOut(box, md, md.beads[b], [pos EXCEPT ![i] = Image(box, @, k)], vel, frc, fl)
      IN o.err = "no" /\ o.cands = Cur[b].cands /\ o.velnum = Cur[b].velnum /\ o.fnum = Cur[b].fnum
\* moving the first parent moves the bead by the same box vector
ThFirst == LET Cur == TLCEval(CurOut) IN (Fr /\ Theorems /\ ~IsZeroBox(box)) =>
  \A b \in 1..NB : OkB(Cur[b]) =>
    \A k \in KSet :
      LET i == md.beads[b].par[1]
          o == BeadOut(box, md, md.beads[b], [pos EXCEPT ![i] = Image(box, @, k)], vel, frc, fl)
      IN o.err = "no" /\ PosNum(o) = VAdd(PosNum(Cur[b]), VScale(Cur[b].W, Image(box, Zero3, k)))
\* rigid translation: W * pos moves by W * t, the error verdict does not change
ThTranslate == LET Cur == TLCEval(CurOut) IN (Fr /\ Theorems) =>
  \A b \in 1..NB, t \in TSet :
      LET o == BeadOut(box, md, md.beads[b], [i \in 1..md.n |-> VAdd(pos[i], t)], vel, frc, fl)
      IN /\ o.err = Cur[b].err
         /\ fl.hp => o.cands = {VAdd(c, VScale(Cur[b].W, t)) : c \in Cur[b].cands}
\* convex hull of the unwrapped parents (weights are non-negative), per coordinate
ThHull == LET Cur == TLCEval(CurOut) IN (Fr /\ Theorems) =>
  \A b \in 1..NB : OkB(Cur[b]) =>
    \A c \in 1..3 :
      LET us == {Cur[b].u[j][c] : j \in 1..Len(md.beads[b].par)}
      IN /\ Cur[b].W * MinOfSet(us) <= PosNum(Cur[b])[c]
         /\ PosNum(Cur[b])[c] <= Cur[b].W * MaxOfSet(us)
\* what the code computes with BCShortestConnection is the statement's bead:
\* same unwrapped parents when not too big; too big for the statement => too big for the code
ThAlgo == LET Cur == TLCEval(CurOut) IN (Fr /\ Theorems /\ fl.hp) =>
  \A b \in 1..NB :
    LET bd == md.beads[b]
        np == Len(bd.par)
        ad2 == [j \in 1..np |-> Norm2(VSub(AlgoU(box, bd, pos, j), pos[bd.par[1]]))]
    IN /\ Cur[b].err = "no" => \A j \in 1..np : AlgoU(box, bd, pos, j) = Cur[b].u[j]
       /\ (Cur[b].err = "yes" /\ ~IsZeroBox(box)) => \E j \in 1..np : AboveHalfHeight(box, ad2[j])
       /\ (Cur[b].err = "either") => /\ \A j \in 1..np : ~AboveHalfHeight(box, ad2[j])
                                     /\ \E j \in 1..np : ~BelowHalfHeight(box, ad2[j])

Leaf == (Emit /\ (Len(h) = Depth \/ MdInitError)) =>
          PrintT(ToJson([md |-> md, h |-> h, initerr |-> MdInitError]))
=============================================================================
