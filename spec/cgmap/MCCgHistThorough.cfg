SPECIFICATION Spec
CONSTANTS
  MapDefs <- MCMapDefs
  FlagSet <- MCFlagsThorough
  Boxes <- MCBoxes
  Confs <- MCConfs
  Bases <- MCBasesQ
  KSet <- MCKSet
  TSet <- MCTSet
  Depth = 2
  Emit = TRUE
  Theorems = FALSE
INVARIANTS InvCert InvUnique InvOpen InvMass Leaf
CHECK_DEADLOCK FALSE
