------------------------------ MODULE TraceCg ------------------------------
(* Opposite direction for C01: the real CGEngine / TopologyMap::Apply ran on random lattice
   frames chosen by the runner (random mapping definitions, boxes, atoms scattered over
   periodic images up to 40 boxes away) and logged what it observed.  TLC judges every
   frame with CgMap!MolOut and prints one verdict per record.
     record:  id, md, fl, box = <<a,b,c>>, pos, vel, frc (one molecule), threw,
              obs = per CG bead [hp, hv, hf, W, fden, pos (= W*8*position as integers),
                                 vel (= W*velocity), f (= fden*force), mass, cgtyp, boxok]
     verdict: id, err (what the statement says: "no" | "yes" | "either"), bad = set of
              violated clauses (tuples; the runner joins them into violation keys)      *)
EXTENDS CgMap, IOUtils

Recs == ndJsonDeserialize(IOEnv.TRACE)
Chunk == 64
VARIABLES i, ph
vars == <<i, ph>>
NChunks == (Len(Recs) + Chunk - 1) \div Chunk
Init == ph = 0 /\ i \in 1..NChunks
Next == /\ ph = 0 /\ ph' = 1
        /\ i' \in {j \in ((i - 1) * Chunk + 1)..(i * Chunk) : j <= Len(Recs)}
Spec == Init /\ [][Next]_vars

R == Recs[i]
If(c, s) == IF c THEN s ELSE {}

Judge(x) ==
  LET B == Box(x.box[1], x.box[2], x.box[3])
      md == x.md
      typ == AutoType(B)
      outs == TLCEval(MolOut(B, md, x.pos, x.vel, x.frc, x.fl))
      ferr == FrameErr(outs)
      bead(b) ==
        LET e == outs[b]
            o == x.obs[b]
            sym == IF md.beads[b].sym = 1 THEN "sphere" ELSE "ellipsoid"
            dk == IF md.beads[b].d = <<>> THEN "no-d" ELSE "d"
        IN If(o.mass # e.mass, {<<"mass", sym>>})
           \cup If(o.hp # e.hasPos, {<<"flags", "pos", sym>>})
           \cup If(o.hp /\ e.hasPos /\ VScale(e.W, o.pos) \notin {VScale(o.W, c) : c \in e.cands}, {<<"pos", sym, typ>>})
           \cup If(o.hv # e.hasVel, {<<"flags", "vel", sym>>})
           \cup If(o.hv /\ e.hasVel /\ VScale(e.W, o.vel) # VScale(o.W, e.velnum), {<<"vel", sym>>})
           \cup If(o.hf # e.hasF, {<<"flags", "force", sym>>})
           \cup If(o.hf /\ e.hasF /\ VScale(e.fden, o.f) # VScale(o.fden, e.fnum), {<<"force", sym, dk>>})
           \cup If(o.cgtyp # typ \/ ~o.boxok, {<<"Apply", "cgbox">>})
  IN [id |-> x.id, err |-> ferr,
      cert |-> \A b \in 1..Len(outs) : outs[b].cert,
      bad |-> IF x.threw
              THEN If(ferr = "no", {IF typ = "open" THEN <<"Apply", "rejection-open-box">>
                                                    ELSE <<"Apply", "spurious-rejection", typ>>})
              ELSE IF ferr = "yes" THEN {<<"Apply", "no-rejection", typ>>}
              ELSE IF Len(x.obs) # Len(outs) THEN {<<"Apply", "bead-count">>}
              ELSE UNION {bead(b) : b \in 1..Len(outs)}]

WellFormed == ph = 0 \/ LET B == Box(R.box[1], R.box[2], R.box[3]) IN
                          (IsZeroBox(B) \/ (Reduced(B) /\ \A c \in 1..3 : Diag(B)[c] <= 12))
Certified == ph = 0 \/ Judge(R).cert
Verdict == ph = 0 \/ PrintT(ToJson(Judge(R)))
=============================================================================
