------------------------------- MODULE CgSets -------------------------------
(* Finite sets used by the model-checking configurations of spec/cgmap: mapping
   definitions, flags, boxes, configurations, shifts.                           *)
EXTENDS Pbc, IOUtils, Sequences
\* bead definitions: parents (atom indices, first = first parent), weights, optional d, symmetry
Bd(par, w, d, sym) == [par |-> par, w |-> w, d |-> d, sym |-> sym]
Md(n, mass, beads) == [n |-> n, mass |-> mass, beads |-> beads]
MCMapSeq == <<
  Md(1, <<3>>, << Bd(<<1>>, <<2>>, <<>>, 1) >>),
  Md(2, <<3, 1>>, << Bd(<<1, 2>>, <<1, 1>>, <<>>, 1) >>),
  Md(3, <<5, 1, 2>>, << Bd(<<1, 2, 3>>, <<2, 1, 1>>, <<>>, 1) >>),
  Md(3, <<5, 1, 2>>, << Bd(<<3, 1, 2>>, <<1, 3, 0>>, <<2, 1, 0>>, 1) >>),
  Md(4, <<4, 1, 1, 3>>, << Bd(<<1, 2>>, <<1, 3>>, <<>>, 1), Bd(<<3, 4, 2>>, <<1, 0, 2>>, <<1, 0, 1>>, 1) >>),
  Md(4, <<4, 1, 1, 3>>, << Bd(<<2, 1, 3, 4>>, <<3, 2, 2, 1>>, <<1, 1, 0, 2>>, 1) >>),
  Md(3, <<2, 2, 7>>, << Bd(<<1, 2, 3>>, <<1, 1, 2>>, <<>>, 3) >>),
  Md(2, <<1, 1>>, << Bd(<<1, 2>>, <<0, 2>>, <<1, 1>>, 1) >>),      \* d # 0 on a zero weight: refused
  Md(4, <<6, 1, 1, 2>>, << Bd(<<2, 1, 3, 4>>, <<1, 2, 1, 1>>, <<>>, 3), Bd(<<4, 3, 1>>, <<1, 0, 3>>, <<>>, 3) >>),
  \* an ellipsoidal bead with fewer than three parents has no defined orientation: refusing it (at
  \* creation or in Apply) or mapping pos/vel/force/mass is admitted, crashing is not
  Md(2, <<1, 4>>, << Bd(<<1, 2>>, <<1, 1>>, <<>>, 3) >>) >>
\* all of them, or the one selected by the runner (environment variable C01_MD = 1..10)
MCMapDefs == IF "C01_MD" \in DOMAIN IOEnv THEN {MCMapSeq[atoi(IOEnv.C01_MD)]}
             ELSE {MCMapSeq[k] : k \in 1..Len(MCMapSeq)}
Fl(hp, hv, hf) == [hp |-> hp, hv |-> hv, hf |-> hf]
MCFlagsQuick == {Fl(TRUE, "all", "all"), Fl(TRUE, "none", "notfirst"), Fl(FALSE, "first", "all")}
MCFlagsAll == {Fl(TRUE, "all", "all"), Fl(TRUE, "none", "notfirst"), Fl(FALSE, "first", "all"),
               Fl(TRUE, "notfirst", "none"), Fl(TRUE, "first", "first"), Fl(FALSE, "none", "none")}
\* exhaustive histories of the thorough tier (the history count grows with the square of this set)
MCFlagsThorough == {Fl(TRUE, "all", "all"), Fl(TRUE, "none", "notfirst"), Fl(FALSE, "first", "all"),
                    Fl(TRUE, "notfirst", "first")}
MCBoxes == {ZeroBox, TriBox(8, 0, 8, 0, 0, 8), TriBox(6, 0, 10, 0, 0, 12),
            TriBox(8, 4, 8, 4, -4, 8), TriBox(10, -3, 8, 2, 4, 12), TriBox(6, 3, 6, -3, 3, 4)}
Cf(off, v, f) == [off |-> off, vel |-> v, frc |-> f]
MCConfs == {
  Cf(<< <<0, 0, 0>>, <<1, 0, 0>>, <<2, 1, 0>>, <<0, -2, 2>> >>,
     << <<1, 0, -2>>, <<0, 3, 1>>, <<-1, -1, 4>>, <<2, 2, 0>> >>,
     << <<3, -1, 0>>, <<-2, 0, 5>>, <<1, 1, 1>>, <<0, -4, 2>> >>),
  Cf(<< <<0, 0, 0>>, <<3, 3, 3>>, <<-3, 0, 1>>, <<1, 1, 1>> >>,
     << <<0, 0, 0>>, <<4, -4, 1>>, <<2, 0, -3>>, <<-1, 5, 2>> >>,
     << <<-1, 2, 2>>, <<0, 0, -3>>, <<6, -2, 1>>, <<1, 0, 0>> >>),
  Cf(<< <<0, 0, 0>>, <<4, 0, 0>>, <<0, 4, 0>>, <<-1, -1, 0>> >>,
     << <<2, 2, 2>>, <<-3, 1, 0>>, <<0, -2, 5>>, <<1, -1, 1>> >>,
     << <<0, 1, 0>>, <<2, -5, 3>>, <<-4, 0, 0>>, <<3, 3, -1>> >>),
  Cf(<< <<0, 0, 0>>, <<-2, 2, -2>>, <<2, 2, 2>>, <<3, 0, -3>> >>,
     << <<-2, 1, 3>>, <<1, 1, 1>>, <<0, 4, -4>>, <<5, 0, 2>> >>,
     << <<1, -3, 2>>, <<-1, 0, 4>>, <<2, 2, -5>>, <<0, 1, 1>> >>),
  Cf(<< <<0, 0, 0>>, <<0, 0, 2>>, <<0, 3, 0>>, <<2, 0, 1>> >>,
     << <<3, 0, 1>>, <<-2, -2, 0>>, <<1, 4, -1>>, <<0, 0, 6>> >>,
     << <<-3, 3, 0>>, <<4, 1, -2>>, <<0, -1, -1>>, <<2, 0, 3>> >>) }
MCBases == {<<1, 2, 3>>, <<-9, 14, 30>>}
MCKSet == {<<1, 0, 0>>, <<0, -1, 0>>, <<0, 0, 2>>, <<-1, 1, 0>>, <<3, -3, 2>>, <<-2, 0, 1>>}
MCTSet == {<<1, 0, 0>>, <<-3, 5, 2>>, <<0, 0, -7>>, <<16, -16, 8>>}
\* reduced sets for the exhaustive history search of the quick tier
MCBoxesQ == {ZeroBox, TriBox(8, 0, 8, 0, 0, 8), TriBox(8, 4, 8, 4, -4, 8)}
MCConfsQ == {c \in MCConfs : c.off[2] \in {<<1, 0, 0>>, <<3, 3, 3>>, <<4, 0, 0>>}}
MCBasesQ == {<<1, 2, 3>>}
\* ---- CgMixed (several molecule types / definitions / ignored types) ----
MCMixDefsQ == {MCMapSeq[k] : k \in {3, 5, 7}}
MCMixDefs == {MCMapSeq[k] : k \in {1, 3, 4, 5, 6, 7, 9}}
MCPatterns == {<<"A", "B">>, <<"B", "A", "A">>, <<"A", "X", "B">>, <<"X", "B", "X", "A">>, <<"A", "A", "A">>}
MCMixBase == <<1, 2, 3>>
=============================================================================
