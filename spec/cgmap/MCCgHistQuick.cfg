SPECIFICATION Spec
CONSTANTS
  MapDefs <- MCMapDefs
  FlagSet <- MCFlagsQuick
  Boxes <- MCBoxesQ
  Confs <- MCConfsQ
  Bases <- MCBasesQ
  KSet <- MCKSet
  TSet <- MCTSet
  Depth = 2
  Emit = TRUE
  Theorems = FALSE
INVARIANTS InvCert InvUnique InvOpen InvMass Leaf
CHECK_DEADLOCK FALSE
