SPECIFICATION Spec
CONSTANTS
  MapDefs <- MCMapDefs
  FlagSet <- MCFlagsQuick
  Boxes <- MCBoxes
  Confs <- MCConfs
  Bases <- MCBases
  KSet <- MCKSet
  TSet <- MCTSet
  Depth = 5
  Emit = TRUE
  Theorems = FALSE
INVARIANTS InvCert InvUnique InvOpen InvMass Leaf
CHECK_DEADLOCK FALSE
