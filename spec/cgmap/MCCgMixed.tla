---- MODULE MCCgMixed ----
EXTENDS CgMixed, CgSets
====
