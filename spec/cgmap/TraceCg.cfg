SPECIFICATION Spec
INVARIANTS WellFormed Certified Verdict
CHECK_DEADLOCK FALSE
