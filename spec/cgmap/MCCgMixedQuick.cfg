SPECIFICATION Spec
CONSTANTS
  MapDefs <- MCMixDefsQ
  Patterns <- MCPatterns
  Boxes <- MCBoxes
  Confs <- MCConfs
  Base <- MCMixBase
  Emit = TRUE
INVARIANTS InvCert InvX Vector
CHECK_DEADLOCK FALSE
