------------------------------- MODULE XmlTop -------------------------------
(* C08, mode L part: a pure XML topology (csg/src/libcsg/modules/io/xmltopologyreader.cc).
   There is no XML topology writer in votca; the "writer" is the harness, which prints the
   description below as <topology><molecules><molecule name nmols nbeads><bead name type mass q/>
   ...</molecules><bonded><bond><name/><beads/></bond>...</bonded></topology>.
   The description is flattened here (molecule types replicated nmols times, bead ids running,
   bonded terms instantiated per molecule copy) and the reader must deliver exactly that:
   names, types, masses, charges, molecules, bonded lists.                                 *)
EXTENDS Integers, Sequences, FiniteSets, TLC, Json

CONSTANTS MaxTypes, NMols, Emit
VARIABLES v
vars == <<v>>

\* mass and charge on decimal lattices: mass = m * 10^-3, q = k * 10^-4
Bd(n, t, m, q) == [name |-> n, type |-> t, mass |-> m, q |-> q]
Cat == [
  A |-> [beads |-> << Bd("A1", "TA", 15035, 0) >>, bonds |-> <<>>, angles |-> <<>>, dihedrals |-> <<>>],
  B |-> [beads |-> << Bd("B1", "TB", 12011, -2500), Bd("B2", "TC", 1008, 2500) >>,
         bonds |-> << <<1, 2>> >>, angles |-> <<>>, dihedrals |-> <<>>],
  C |-> [beads |-> << Bd("C1", "TA", 72150, 10000), Bd("C2", "TB", 999, -5000), Bd("C3", "TA", 15999, -5000) >>,
         bonds |-> << <<1, 2>>, <<2, 3>> >>, angles |-> << <<1, 2, 3>> >>, dihedrals |-> <<>>],
  D |-> [beads |-> << Bd("D1", "TD", 1, 1), Bd("D2", "TD", 100000, -1), Bd("D3", "TA", 32060, 0),
                      Bd("D4", "TB", 18998, 12345) >>,
         bonds |-> << <<1, 2>>, <<2, 3>>, <<3, 4>> >>, angles |-> << <<1, 2, 3>>, <<2, 3, 4>> >>,
         dihedrals |-> << <<1, 2, 3, 4>> >>] ]
TypeNames == {"A", "B", "C", "D"}

\* a system: sequence of distinct molecule types, each replicated nmols times
RECURSIVE Distinct(_)
Distinct(s) == (Len(s) <= 1) \/ ((\A k \in 2..Len(s) : s[k].t # s[1].t) /\ Distinct(Tail(s)))
Systems == { s \in UNION { [1..L -> [t : TypeNames, nmols : NMols]] : L \in 1..MaxTypes } : Distinct(s) }

NBeads(e) == Len(Cat[e.t].beads) * e.nmols
RECURSIVE BeadsBefore(_, _)
BeadsBefore(s, k) == IF k = 1 THEN 0 ELSE BeadsBefore(s, k - 1) + NBeads(s[k - 1])
RECURSIVE MolsBefore(_, _)
MolsBefore(s, k) == IF k = 1 THEN 0 ELSE MolsBefore(s, k - 1) + s[k - 1].nmols
\* 0-based id of bead b of copy m (1-based) of system entry k
BeadId(s, k, m, b) == BeadsBefore(s, k) + (m - 1) * Len(Cat[s[k].t].beads) + (b - 1)
MolId(s, k, m) == MolsBefore(s, k) + (m - 1)

RECURSIVE FlatSeq(_)
FlatSeq(ss) == IF ss = <<>> THEN <<>> ELSE Head(ss) \o FlatSeq(Tail(ss))

FlatBeads(s) ==
  LET PerEntry(k) ==
        LET PerMol(m) == [b \in 1..Len(Cat[s[k].t].beads) |->
                             [id |-> BeadId(s, k, m, b), name |-> Cat[s[k].t].beads[b].name,
                              type |-> Cat[s[k].t].beads[b].type, mass |-> Cat[s[k].t].beads[b].mass,
                              q |-> Cat[s[k].t].beads[b].q, mol |-> MolId(s, k, m)]]
        IN FlatSeq([m \in 1..s[k].nmols |-> PerMol(m)])
  IN FlatSeq([k \in 1..Len(s) |-> PerEntry(k)])
FlatMols(s) ==
  LET PerEntry(k) == [m \in 1..s[k].nmols |->
                        [id |-> MolId(s, k, m), name |-> s[k].t,
                         beads |-> [b \in 1..Len(Cat[s[k].t].beads) |-> BeadId(s, k, m, b)]]]
  IN FlatSeq([k \in 1..Len(s) |-> PerEntry(k)])
\* bonded terms as a set (the order in which the reader stores them is not part of the statement)
Bonded(s) ==
  UNION { UNION { {[group |-> "bond", mol |-> MolId(s, k, m),
                    beads |-> [x \in 1..2 |-> BeadId(s, k, m, Cat[s[k].t].bonds[j][x])]]
                     : j \in 1..Len(Cat[s[k].t].bonds)}
              \cup {[group |-> "angle", mol |-> MolId(s, k, m),
                    beads |-> [x \in 1..3 |-> BeadId(s, k, m, Cat[s[k].t].angles[j][x])]]
                     : j \in 1..Len(Cat[s[k].t].angles)}
              \cup {[group |-> "dihedral", mol |-> MolId(s, k, m),
                    beads |-> [x \in 1..4 |-> BeadId(s, k, m, Cat[s[k].t].dihedrals[j][x])]]
                     : j \in 1..Len(Cat[s[k].t].dihedrals)}
            : m \in 1..s[k].nmols } : k \in 1..Len(s) }

Describe(s) == [k \in 1..Len(s) |-> [name |-> s[k].t, nmols |-> s[k].nmols, beads |-> Cat[s[k].t].beads,
                                      bonds |-> Cat[s[k].t].bonds, angles |-> Cat[s[k].t].angles,
                                      dihedrals |-> Cat[s[k].t].dihedrals]]

Init == v \in Systems
Next == UNCHANGED v
Spec == Init /\ [][Next]_vars

\* design-level sanity of the flattening: ids are 0..N-1 in order, molecules partition the beads,
\* every bonded term lies inside one molecule
IdsContiguous == LET fb == FlatBeads(v) IN \A i \in 1..Len(fb) : fb[i].id = i - 1
MolsPartition ==
  LET fb == FlatBeads(v)  fm == FlatMols(v) IN
  /\ \A i \in 1..Len(fm) : fm[i].id = i - 1
  /\ \A i \in 1..Len(fb) : \E b \in 1..Len(fm[fb[i].mol + 1].beads) : fm[fb[i].mol + 1].beads[b] = fb[i].id
  /\ Len(fb) = LET RECURSIVE S(_) S(k) == IF k = 0 THEN 0 ELSE S(k - 1) + Len(fm[k].beads) IN S(Len(fm))
BondedInside ==
  LET fb == FlatBeads(v) IN
  \A t \in Bonded(v) : \A x \in 1..Len(t.beads) : fb[t.beads[x] + 1].mol = t.mol

Leaf == Emit => PrintT(ToJson([kind |-> "xml", inp |-> Describe(v),
                               exp |-> [beads |-> FlatBeads(v), molecules |-> FlatMols(v), bonded |-> Bonded(v)]]))
=============================================================================
