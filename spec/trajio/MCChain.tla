---- MODULE MCChain ----
EXTENDS Chain
====
