----------------------------- MODULE TwoReaders -----------------------------
(* C08: two handles at once.  Two trajectory files of the same format (A and B, two frames
   each - one for CONFIG -, different payloads, box classes chosen independently) are written
   one after the other and then read by TWO reader objects that are open at the same time,
   each with its own topology, their FirstFrame/NextFrame calls interleaved in every possible
   order (csg_fmatch --trj-force reads a second trajectory next to the first one).
   Property: a reader is a function of its own file only - reader s delivers the frames of
   file s in order and 'false' after the last one, whatever the other reader does in between. *)
EXTENDS TrajIO

VARIABLES tw,      \* [bcs |-> <<bcA, bcB>>] box classes of the two files
          pos      \* <<calls made by reader 1, by reader 2>>
tvars == <<vars, tw, pos>>

NFr == IF Cap[fmt].multi THEN 2 ELSE 1
\* frame k of file s: payloads differ between the files (file session index s)
TwoGiven(s, k) == Given(fmt, [bc |-> tw.bcs[s], pid |-> 0], k, s)
FilesRec == [a |-> "files", frames |-> [s \in 1..2 |-> [k \in 1..NFr |-> TwoGiven(s, k)]]]

TwoInit == /\ Init
           /\ tw \in [bcs : BoxClasses \X BoxClasses]
           /\ pos = <<0, 0>>

Call(s) ==
  /\ pos[s] <= NFr           \* FirstFrame, NextFrame ..., one call beyond the end
  /\ pos' = [pos EXCEPT ![s] = @ + 1]
  /\ LET hh == IF h = <<>> THEN <<FilesRec>> ELSE h
         e == IF pos[s] < NFr
              THEN [a |-> IF pos[s] = 0 THEN "rfirst" ELSE "rnext", slot |-> s, err |-> FALSE, ret |-> TRUE,
                    k |-> pos[s] + 1, exp |-> Stored(fmt, TwoGiven(s, pos[s] + 1))]
              ELSE [a |-> "rnext", slot |-> s, err |-> FALSE, ret |-> FALSE, k |-> 0]
     IN h' = Append(hh, e)
  /\ UNCHANGED <<fmt, nb, hv, hf, phase, base, cur, file, nfiles, rn, started, failed, rpos, extra, tw>>
TwoNext == \E s \in 1..2 : Call(s)
TwoSpec == TwoInit /\ [][TwoNext]_tvars

Done == pos[1] = NFr + 1 /\ pos[2] = NFr + 1
\* independence: the calls of reader s, taken alone, are exactly the single-reader behaviour on file s
CallsOf(s) == SelectSeq(h, LAMBDA e : e.a # "files" /\ e.slot = s)
Independent ==
  \A s \in 1..2 : LET c == CallsOf(s) IN
     \A j \in 1..Len(c) : IF j <= NFr THEN c[j].ret /\ c[j].k = j /\ c[j].exp = Stored(fmt, TwoGiven(s, j))
                                      ELSE ~c[j].ret
\* the two files really differ (otherwise mixing them up would be invisible)
FilesDiffer == TwoGiven(1, 1).pos # TwoGiven(2, 1).pos
\* interleaving really happens: some complete history switches reader at least twice
TwoLeaf == (Emit /\ Done) =>
  PrintT(ToJson([fmt |-> fmt, n |-> nb, hv |-> hv, hf |-> hf, units |-> Units(fmt),
                 beads |-> [i \in 1..nb |-> [name |-> BName(i), type |-> BType(i),
                                             resnr |-> BResnr(i), resname |-> BResname(i)]],
                 h |-> h]))
=============================================================================
