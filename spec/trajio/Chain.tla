------------------------------- MODULE Chain -------------------------------
(* C08, thorough tier: conversions a -> b -> a with the real csg_map executable
   (csg_map --top a --trj a --no-map --out b ; csg_map --top a --trj b --no-map --out a').
   Mode L: one initial state per vector.  The start format is gro; positions/velocities are on
   gro's lattice (1e-3 nm, 1e-4 nm/ps), which every other format resolves exactly, and inside
   the narrowest field of all formats (xyz: -99.99999..999.99999 A).  What must survive is the
   projection through BOTH formats: the capability of the intermediate format masks box and
   velocities (dump: diagonal only; xyz/pdb: no box, no velocities).                        *)
EXTENDS TrajIO

CONSTANTS Mids, ChainLen
VARIABLE cv
cvars == <<vars, cv>>

CPos(p, i, c, s) == Pick(-9999, 99999, p, i, c, 0, s)
CVel(p, i, c, s) == Pick(-999999, 9999999, p, i, c, 1, s)
ChainGiven(fr, k) ==
  [step |-> 0, time |-> 0, div |-> 1, bc |-> fr.bc, pid |-> fr.pid,
   box |-> [r \in 1..3 |-> [c \in 1..3 |-> BoxK("gro", fr.bc, fr.pid, r, c)]],
   pos |-> [i \in 1..nb |-> [c \in 1..3 |-> CPos(fr.pid, i, c, k)]],
   vel |-> IF hv THEN [i \in 1..nb |-> [c \in 1..3 |-> CVel(fr.pid, i, c, k)]] ELSE <<>>,
   f   |-> <<>>]

MinBox(a, b) == IF a = "none" \/ b = "none" THEN "none" ELSE IF a = "diag" \/ b = "diag" THEN "diag" ELSE "full"
ChainStored(b, g) ==
  LET s == Stored("gro", g)  keepv == s.hasvel /\ Cap[b].vel IN
  [s EXCEPT !.boxmode = MinBox(Cap["gro"].box, Cap[b].box),
            !.hasvel = keepv, !.vel = IF keepv THEN s.vel ELSE <<>>]

FrameSeqs(b) == { s \in UNION { [1..L -> Frames] : L \in 1..ChainLen } :
                    Cap[b].constbox => \A k \in 1..Len(s) : s[k].bc = s[1].bc }

ChainInit == /\ Init /\ fmt = "gro" /\ hf = FALSE
             /\ cv \in UNION { { [mid |-> b, frames |-> s] : s \in FrameSeqs(b) } : b \in Mids }
ChainNext == UNCHANGED cvars
ChainSpec == ChainInit /\ [][ChainNext]_cvars

\* the chain keeps at least what the weaker of the two formats keeps
ChainWeaker ==
  \A k \in 1..Len(cv.frames) :
     LET g == ChainGiven(cv.frames[k], k)  c == ChainStored(cv.mid, g) IN
     /\ c.pos = g.pos /\ c.n = nb
     /\ (c.boxmode = "full" => Cap[cv.mid].box = "full")
     /\ (c.hasvel => hv)

ChainLeaf == Emit =>
  PrintT(ToJson([first |-> "gro", mid |-> cv.mid, n |-> nb, hv |-> hv, units |-> Units("gro"),
                 beads |-> [i \in 1..nb |-> [name |-> BName(i), type |-> BType(i),
                                             resnr |-> BResnr(i), resname |-> BResname(i)]],
                 frames |-> [k \in 1..Len(cv.frames) |-> ChainGiven(cv.frames[k], k)],
                 exp |-> [k \in 1..Len(cv.frames) |-> ChainStored(cv.mid, ChainGiven(cv.frames[k], k))]]))
=============================================================================
