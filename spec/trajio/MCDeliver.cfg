SPECIFICATION DSpec
CONSTANTS
  Formats = {"gro", "dump", "xyz", "pdb", "pdbx", "dlph", "dlpc", "h5", "h5s", "h5a", "h5ta"}
  NSet = {2}
  MaxFrames = 3
  Pids = {0}
  MaxFiles = 1
  ExtraNext = 1
  HVSet = {TRUE}
  HFSet = {TRUE}
  ReuseSet = {FALSE}
  Emit = TRUE
INVARIANTS TargetIndependent FramesDiffer DLeaf
CHECK_DEADLOCK FALSE
