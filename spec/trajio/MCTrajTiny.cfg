SPECIFICATION Spec
CONSTANTS
  Formats = {"gro", "dump", "xyz", "pdb", "pdbx", "dlph", "dlpc"}
  NSet = {2}
  MaxFrames = 3
  Pids = {98}
  MaxFiles = 1
  ExtraNext = 1
  HVSet = {TRUE}
  HFSet = {TRUE}
  ReuseSet = {FALSE}
  Emit = TRUE
INVARIANTS OrderAndContent EofExact CountPreserved MismatchIsError NothingAfterError FileIsHistory Leaf
CHECK_DEADLOCK FALSE
