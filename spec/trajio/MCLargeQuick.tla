---- MODULE MCLargeQuick ----
EXTENDS Large
====
