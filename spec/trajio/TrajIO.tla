------------------------------- MODULE TrajIO -------------------------------
(* C08, mode H: a trajectory writer, a file and a reader as an abstract channel.

   One behaviour = one format, one topology (nb beads, velocity/force flags) and up to
   MaxFiles "file sessions" on the SAME file name:
       WOpen(append) WWrite(frame)+ WClose   then one reader session
       ( ROpen(delta) RFirst RNext* [RNextMismatch] RClose  |  RReadTopology )
   The file is a sequence of *stored* frames: Stored(fmt, frame) is the projection of a
   frame onto what the format AS IMPLEMENTED keeps (capability table Cap).  The history
   variable h records every call together with the observation the real code has to show;
   it is exported as JSON at the end of every reader session and replayed into
   TrjWriterFactory / TrjReaderFactory / TopReaderFactory objects.

   All numbers are integers on a per-format decimal lattice: value = K * 10^-e in VOTCA's
   units (nm, nm/ps, kJ/mol/nm); e comes from Cap so that the printed decimal text of the
   format is exact and K spans the field width, both signs.                            *)
EXTENDS Integers, Sequences, FiniteSets, TLC, Json

CONSTANTS Formats,     \* subset of DOMAIN Cap
          NSet,        \* bead counts
          MaxFrames,   \* frames written per file session
          Pids,        \* payload ids (0 small, 1 field-width extremes, 2..50 scrambled,
                       \* 99 "large frame": cheap function of the bead index, neighbours differ,
                       \* 98 "tiny": +-1, 10, ... 10^4 quanta DIVIDED BY 3 (field `div` of the frame):
                       \*    magnitudes far below one unit of the field with a full mantissa, both
                       \*    signs, in every column; such values are not on the text lattice and
                       \*    come back "within the printed precision" (half a unit of the last
                       \*    printed digit; dlpoly: 12 significant digits))
          MaxFiles,    \* file sessions per behaviour
          ExtraNext,   \* RNext calls after the end of the file
          HVSet, HFSet, \* topology flags explored (subsets of BOOLEAN)
          ReuseSet,    \* {FALSE}: fresh writer/reader object per session; {TRUE}: from the second session
                       \* on the SAME (closed) object is opened again; BOOLEAN: both
          Emit

VARIABLES fmt, nb, hv, hf,  \* format, bead count, topology has velocities / forces
          phase,            \* "idle" "writing" "written" "reading" "closed"
          base,             \* frames in the file before this writer session (append)
          cur,              \* frames handed to the writer so far, incl. the appended-to prefix
          file,             \* frames in the closed file (sequence of frame records)
          nfiles,
          rn,               \* bead count of the reader's topology
          started, failed,  \* reader: FirstFrame done / an error was reported
          rpos,             \* frames delivered in this reader session
          extra,            \* RNext calls that hit the end of the file
          h
vars == <<fmt, nb, hv, hf, phase, base, cur, file, nfiles, rn, started, failed, rpos, extra, h>>

\* ---------------------------------------------------------------------------
\* capability table: what each format, as implemented in csg/src/libcsg/modules/io, stores.
\*  vel/force : written when the topology flag is set (force in dlpoly only together with vel)
\*  fexact    : force text is an exact decimal of the lattice value (dump converts kJ->kcal: no)
\*  box       : "full" 9 entries, "diag" diagonal only (lammps dump without tilt), "none"
\*  step      : step number stored and read back
\*  time      : time stamp stored and read back (dlpoly HISTORY: step * dt with dt = time/step of the
\*              first frame of the file; the model gives time = step * 2 fs, so it is exact.  gro/xyz/pdb
\*              titles carry no time that a reader uses; dump has no time)
\*  multi     : more than one frame per file;  append : Open(file, append=true) supported
\*  constbox  : the box class is a property of the file (dlpoly header imcon)
\*  top       : a TopologyReader exists for the format; names/resnames/types: what it recovers
\*  epos, evel, ef, ebox : lattice exponents (value = K * 10^-e nm, nm/ps, kJ/mol/nm)
\*  pmin,pmax,vmin,vmax,fmax,bmax,omin : field-width bounds for K
Cap == [
  gro  |-> [vel |-> TRUE,  force |-> FALSE, fexact |-> TRUE,  box |-> "full", step |-> FALSE, time |-> FALSE,
            multi |-> TRUE,  append |-> TRUE,  constbox |-> FALSE, top |-> TRUE,
            names |-> TRUE,  resnames |-> TRUE,  types |-> "name",
            epos |-> 3, evel |-> 4, ef |-> 3, ebox |-> 5,
            pmin |-> -999999, pmax |-> 9999999, vmin |-> -999999, vmax |-> 9999999,
            fmax |-> 1, bmax |-> 99999999, omin |-> -9999999],
  dump |-> [vel |-> TRUE,  force |-> TRUE,  fexact |-> FALSE, box |-> "diag", step |-> TRUE, time |-> FALSE,
            multi |-> TRUE,  append |-> TRUE,  constbox |-> FALSE, top |-> TRUE,
            names |-> FALSE, resnames |-> FALSE, types |-> "partition",
            epos |-> 7, evel |-> 7, ef |-> 3, ebox |-> 7,
            pmin |-> -999999999, pmax |-> 999999999, vmin |-> -999999999, vmax |-> 999999999,
            fmax |-> 99999999, bmax |-> 999999999, omin |-> -99999999],
  xyz  |-> [vel |-> FALSE, force |-> FALSE, fexact |-> TRUE,  box |-> "none", step |-> FALSE, time |-> FALSE,
            multi |-> TRUE,  append |-> TRUE,  constbox |-> FALSE, top |-> TRUE,
            names |-> FALSE, resnames |-> FALSE, types |-> "name",
            epos |-> 6, evel |-> 6, ef |-> 3, ebox |-> 6,
            pmin |-> -9999999, pmax |-> 99999999, vmin |-> -1, vmax |-> 1,
            fmax |-> 1, bmax |-> 99999999, omin |-> -9999999],
  pdb  |-> [vel |-> FALSE, force |-> FALSE, fexact |-> TRUE,  box |-> "none", step |-> FALSE, time |-> FALSE,
            multi |-> TRUE,  append |-> TRUE,  constbox |-> FALSE, top |-> TRUE,
            names |-> TRUE,  resnames |-> TRUE,  types |-> "name",
            epos |-> 4, evel |-> 4, ef |-> 3, ebox |-> 4,
            pmin |-> -999999, pmax |-> 9999999, vmin |-> -1, vmax |-> 1,
            fmax |-> 1, bmax |-> 9999999, omin |-> -999999],
  \* pdb file with a CRYST1 record before every MODEL: PDBWriter::WriteBox(box in Angstrom - the unit
  \* its callers in xtp pass) followed by Write().  The reader implements rectangular cells only
  \* ("Non cubical box in pdb file not implemented, yet!"), so only orthorhombic frames are written.
  pdbx |-> [vel |-> FALSE, force |-> FALSE, fexact |-> TRUE,  box |-> "diag", step |-> FALSE, time |-> FALSE,
            multi |-> TRUE,  append |-> TRUE,  constbox |-> FALSE, top |-> TRUE,
            names |-> TRUE,  resnames |-> TRUE,  types |-> "name",
            epos |-> 4, evel |-> 4, ef |-> 3, ebox |-> 4,
            pmin |-> -999999, pmax |-> 9999999, vmin |-> -1, vmax |-> 1,
            fmax |-> 1, bmax |-> 99999999, omin |-> -999999],
  \* H5MD (reader only; the harness generates the file through the HDF5 C API): binary doubles, a
  \* rectangular box only (edges[3]); no step/time is read.  Four layouts of the same content:
  \*   h5   time-dependent box (box/edges/value[T][3]), no units module
  \*   h5s  time-independent box (dataset box/edges[3]): one box for the whole file
  \*   h5a  as h5s, units module on and lengths stored in Angstrom (unit "A", "A ps-1")
  \*   h5ta as h5,  units module on and lengths stored in Angstrom
  \* The reader warns about a bead-count mismatch and goes on by design ("The number of beads from
  \* topology will be used!"), so the mismatch clause is not exercised for these (NoMismatch).
  h5   |-> [vel |-> TRUE,  force |-> TRUE,  fexact |-> TRUE,  box |-> "diag", step |-> FALSE, time |-> FALSE,
            multi |-> TRUE,  append |-> FALSE, constbox |-> FALSE, top |-> FALSE,
            names |-> FALSE, resnames |-> FALSE, types |-> "none",
            epos |-> 7, evel |-> 7, ef |-> 4, ebox |-> 7,
            pmin |-> -999999999, pmax |-> 999999999, vmin |-> -999999999, vmax |-> 999999999,
            fmax |-> 999999999, bmax |-> 999999999, omin |-> -99999999],
  h5s  |-> [vel |-> TRUE,  force |-> TRUE,  fexact |-> TRUE,  box |-> "diag", step |-> FALSE, time |-> FALSE,
            multi |-> TRUE,  append |-> FALSE, constbox |-> FALSE, top |-> FALSE,
            names |-> FALSE, resnames |-> FALSE, types |-> "none",
            epos |-> 7, evel |-> 7, ef |-> 4, ebox |-> 7,
            pmin |-> -999999999, pmax |-> 999999999, vmin |-> -999999999, vmax |-> 999999999,
            fmax |-> 999999999, bmax |-> 999999999, omin |-> -99999999],
  h5a  |-> [vel |-> TRUE,  force |-> TRUE,  fexact |-> TRUE,  box |-> "diag", step |-> FALSE, time |-> FALSE,
            multi |-> TRUE,  append |-> FALSE, constbox |-> FALSE, top |-> FALSE,
            names |-> FALSE, resnames |-> FALSE, types |-> "none",
            epos |-> 7, evel |-> 7, ef |-> 4, ebox |-> 7,
            pmin |-> -999999999, pmax |-> 999999999, vmin |-> -999999999, vmax |-> 999999999,
            fmax |-> 999999999, bmax |-> 999999999, omin |-> -99999999],
  h5ta |-> [vel |-> TRUE,  force |-> TRUE,  fexact |-> TRUE,  box |-> "diag", step |-> FALSE, time |-> FALSE,
            multi |-> TRUE,  append |-> FALSE, constbox |-> FALSE, top |-> FALSE,
            names |-> FALSE, resnames |-> FALSE, types |-> "none",
            epos |-> 7, evel |-> 7, ef |-> 4, ebox |-> 7,
            pmin |-> -999999999, pmax |-> 999999999, vmin |-> -999999999, vmax |-> 999999999,
            fmax |-> 999999999, bmax |-> 999999999, omin |-> -99999999],
  dlph |-> [vel |-> TRUE,  force |-> TRUE,  fexact |-> TRUE,  box |-> "full", step |-> TRUE, time |-> TRUE,
            multi |-> TRUE,  append |-> FALSE, constbox |-> TRUE,  top |-> FALSE,
            names |-> FALSE, resnames |-> FALSE, types |-> "none",
            epos |-> 7, evel |-> 7, ef |-> 4, ebox |-> 7,
            pmin |-> -999999999, pmax |-> 999999999, vmin |-> -999999999, vmax |-> 999999999,
            fmax |-> 999999999, bmax |-> 999999999, omin |-> -99999999],
  dlpc |-> [vel |-> TRUE,  force |-> TRUE,  fexact |-> TRUE,  box |-> "full", step |-> FALSE, time |-> FALSE,
            multi |-> FALSE, append |-> FALSE, constbox |-> TRUE,  top |-> FALSE,
            names |-> FALSE, resnames |-> FALSE, types |-> "none",
            epos |-> 7, evel |-> 7, ef |-> 4, ebox |-> 7,
            pmin |-> -999999999, pmax |-> 999999999, vmin |-> -999999999, vmax |-> 999999999,
            fmax |-> 999999999, bmax |-> 999999999, omin |-> -99999999] ]

BoxClasses == {"open", "ortho", "tric"}
H5Formats == {"h5", "h5s", "h5a", "h5ta"}
H5Static == {"h5s", "h5a"}
NoMismatch == H5Formats

\* ---------------------------------------------------------------------------
\* the topology handed to the writer (bead i = 1..nb)
NameTab == <<"C", "N", "O", "H", "S">>
TypeTab == <<"TA", "TB", "TA", "TC", "TB">>
ResTab  == <<"RA", "RB", "RC">>
BName(i)  == NameTab[((i - 1) % 5) + 1]
BType(i)  == TypeTab[((i - 1) % 5) + 1]
BResnr(i) == (i - 1) \div 2
BResname(i) == ResTab[(BResnr(i) % 3) + 1]
\* first-occurrence numbering of the types (what "the same partition" means)
TypeIdx(i) == CHOOSE k \in 1..i : /\ BType(k) = BType(i)
                                  /\ \A j \in 1..(k - 1) : BType(j) # BType(i)

\* ---------------------------------------------------------------------------
\* payload lattice values
\* s = position of the frame in the file (+ file session): equal payload ids at different
\* positions give different numbers, so the order of frames is observable in every format
Hash(p, i, c, kind, s) ==
  (((p * 7919 + i * 613 + c * 211 + kind * 97 + s * 389) * 4099 + 1234) % 200003)
Clamp(lo, hi, v) == IF v > hi THEN hi ELSE IF v < lo THEN lo ELSE v
Pick(lo, hi, p, i, c, kind, s) ==
  IF p = 0 THEN LET m == (7 * i + 3 * c + kind + 1) * 37 + 1000 * s
                IN Clamp(lo, hi, IF (i + c) % 2 = 0 THEN m ELSE -m)
  ELSE IF p = 1 THEN LET sel == (3 * i + c + kind + s) % 7
                     IN CASE sel = 0 -> hi   [] sel = 1 -> lo     [] sel = 2 -> 0
                          [] sel = 3 -> 1    [] sel = 4 -> -1     [] sel = 5 -> hi - 1
                          [] OTHER -> lo + 1
  ELSE IF p = 98 THEN Clamp(lo, hi, (IF (i + 2 * c + s) % 2 = 0 THEN 1 ELSE -1) *
                                     (CASE (i + c + kind + s) % 5 = 0 -> 1 [] (i + c + kind + s) % 5 = 1 -> 10
                                        [] (i + c + kind + s) % 5 = 2 -> 100 [] (i + c + kind + s) % 5 = 3 -> 1000
                                        [] OTHER -> 10000))
  ELSE IF p = 99 THEN Clamp(lo, hi, ((i * 7 + c * 3331 + kind * 977 + s) % 19999) - 9999)
  ELSE lo + ((Hash(p, i, c, kind, s) * 9973 + i * 31 + c * 17) % (hi - lo + 1))

PosK(f, p, i, c, s) == Pick(Cap[f].pmin, Cap[f].pmax, p, i, c, 0, s)
VelK(f, p, i, c, s) == Pick(Cap[f].vmin, Cap[f].vmax, p, i, c, 1, s)
ForK(f, p, i, c, s) == Pick(-Cap[f].fmax, Cap[f].fmax, p, i, c, 2, s)

\* box matrix entry (r,c in 1..3); column c is box vector c.  Diagonal positive, off-diagonal
\* entries all different in magnitude (a transposition or a dropped entry is visible)
BoxK(f, bc, p, r, c) ==
  IF bc = "open" THEN 0
  ELSE IF r = c THEN (IF p = 1 THEN Cap[f].bmax - (r - 1)
                      ELSE 300000 + 12345 * ((p % 50) + 1) + 1111 * r)
  ELSE IF bc = "ortho" THEN 0
  ELSE IF p = 98 THEN (IF (r + c) % 2 = 0 THEN 1 ELSE -1) *
                      (CASE (r + 2 * c) % 4 = 0 -> 1 [] (r + 2 * c) % 4 = 1 -> 10 [] (r + 2 * c) % 4 = 2 -> 100 [] OTHER -> 1000)
  ELSE IF p = 1 /\ r = 1 /\ c = 2 THEN Cap[f].omin
  ELSE (IF (r + c + p) % 2 = 0 THEN 1 ELSE -1) * ((3 * (r - 1) + c) * 4321 + (p % 50))

Frames == [bc : BoxClasses, pid : Pids]
\* the step number makes the order of frames observable where the format stores it
StepOf(fr, k, nf) == 1000 * nf + 10 * k + (fr.pid % 10) + 1

\* what the writer is given for frame fr as the k-th frame of file session nf
Given(f, fr, k, nf) ==
  [step |-> StepOf(fr, k, nf), time |-> 2 * StepOf(fr, k, nf),   \* time in 10^-3 ps
   bc |-> fr.bc, pid |-> fr.pid,
   div |-> IF fr.pid = 98 THEN 3 ELSE 1,       \* every number of the frame is K * 10^-e / div
   box |-> [r \in 1..3 |-> [c \in 1..3 |-> BoxK(f, fr.bc, fr.pid, r, c)]],
   pos |-> [i \in 1..nb |-> [c \in 1..3 |-> PosK(f, fr.pid, i, c, k + 5 * nf)]],
   vel |-> IF hv THEN [i \in 1..nb |-> [c \in 1..3 |-> VelK(f, fr.pid, i, c, k + 5 * nf)]] ELSE <<>>,
   f   |-> IF hf THEN [i \in 1..nb |-> [c \in 1..3 |-> ForK(f, fr.pid, i, c, k + 5 * nf)]] ELSE <<>>]

HasVelStored(f) == Cap[f].vel /\ hv
HasForStored(f) == Cap[f].force /\ hf /\ (f \in {"dlph", "dlpc"} => hv)

\* projection of a given frame onto what the format keeps = what a reader must deliver
Stored(f, g) ==
  [n |-> nb,
   step |-> IF Cap[f].step THEN g.step ELSE -1,
   time |-> IF Cap[f].time THEN g.time ELSE -1,
   div |-> g.div,           \* > 1: compare within the printed precision, see Units(f).sig
   boxmode |-> Cap[f].box,
   box |-> IF Cap[f].box = "none" THEN <<>> ELSE g.box,
   pos |-> g.pos,
   hasvel |-> HasVelStored(f), vel |-> IF HasVelStored(f) THEN g.vel ELSE <<>>,
   hasf |-> HasForStored(f),   f |-> IF HasForStored(f) THEN g.f ELSE <<>>,
   fexact |-> Cap[f].fexact]

\* what a TopologyReader must recover from the first frame of the file
TopStored(f, g) ==
  [n |-> nb,
   names |-> IF Cap[f].names \/ Cap[f].types = "name" THEN [i \in 1..nb |-> BName(i)] ELSE <<>>,
   namesin |-> IF Cap[f].names THEN "name" ELSE IF Cap[f].types = "name" THEN "type" ELSE "none",
   resnames |-> IF Cap[f].resnames THEN [i \in 1..nb |-> BResname(i)] ELSE <<>>,
   typepart |-> IF Cap[f].types = "partition" THEN [i \in 1..nb |-> TypeIdx(i)] ELSE <<>>,
   frame |-> Stored(f, g)]

\* sig: significant digits printed by formats without a fixed number of decimals (dlpoly: 12); 0 = fixed
\* decimals, the printed quantum is 10^-e
Units(f) == [epos |-> Cap[f].epos, evel |-> Cap[f].evel, ef |-> Cap[f].ef, ebox |-> Cap[f].ebox,
             sig |-> IF f \in {"dlph", "dlpc"} THEN 12 ELSE 0,
             \* the CONFIG cell is printed with 10 fixed decimals (Angstrom) = quantum 10^-11 nm
             ebfix |-> IF f = "dlpc" THEN 11 ELSE 0]

\* ---------------------------------------------------------------------------
Init ==
  /\ fmt \in Formats /\ nb \in NSet /\ hv \in HVSet /\ hf \in HFSet
  /\ phase = "idle" /\ base = 0 /\ cur = <<>> /\ file = <<>> /\ nfiles = 0
  /\ rn = 0 /\ started = FALSE /\ failed = FALSE /\ rpos = 0 /\ extra = 0
  /\ h = <<>>

\* reuse: the writer object of the previous session (closed) is opened again
WOpen(app, reuse) ==
  /\ phase \in {"idle", "closed"} /\ nfiles < MaxFiles
  /\ app => (nfiles > 0 /\ Cap[fmt].append)
  /\ reuse = (nfiles > 0 /\ reuse) /\ (nfiles > 0 => reuse \in ReuseSet)
  /\ phase' = "writing"
  /\ cur' = IF app THEN file ELSE <<>>
  /\ base' = IF app THEN Len(file) ELSE 0
  /\ h' = Append(h, [a |-> "wopen", app |-> app, reuse |-> reuse])
  /\ UNCHANGED <<fmt, nb, hv, hf, file, nfiles, rn, started, failed, rpos, extra>>

WWrite(fr) ==
  /\ phase = "writing"
  /\ Len(cur) - base < (IF Cap[fmt].multi THEN MaxFrames ELSE 1)
  /\ (Cap[fmt].constbox /\ Len(cur) > 0) => fr.bc = cur[1].bc
  /\ fmt = "pdbx" => fr.bc = "ortho"
  \* a time-independent box: every frame of the file has the box of the first one
  /\ (fmt \in H5Static /\ Len(cur) > 0) => Given(fmt, fr, Len(cur) + 1, nfiles).box = cur[1].box
  /\ LET g == Given(fmt, fr, Len(cur) + 1, nfiles) IN
       /\ cur' = Append(cur, g)
       /\ h' = Append(h, [a |-> "wwrite", fr |-> g])
  /\ UNCHANGED <<fmt, nb, hv, hf, phase, base, file, nfiles, rn, started, failed, rpos, extra>>

WClose ==
  /\ phase = "writing" /\ Len(cur) > base
  /\ file' = cur /\ phase' = "written" /\ nfiles' = nfiles + 1
  /\ h' = Append(h, [a |-> "wclose"])
  /\ UNCHANGED <<fmt, nb, hv, hf, base, cur, rn, started, failed, rpos, extra>>

\* reader session with a topology of nb + delta beads
\* reuse: the reader object of an earlier session (closed, possibly after a reported error)
\* Which closed reader objects exist: r = the object of the last closed trajectory session,
\* t = the object that served the last ReadTopology.  GROReader, PDBReader, XYZReader and
\* LAMMPSDumpReader implement BOTH interfaces, so either object can serve either purpose
\* (src = "reader" / "top"); an object moves to where it was used last.
RECURSIVE ObjState(_)
ObjState(hh) ==
  IF hh = <<>> THEN [r |-> FALSE, t |-> FALSE]
  ELSE LET st == ObjState(SubSeq(hh, 1, Len(hh) - 1))  e == hh[Len(hh)] IN
       IF e.a = "ropen" THEN (IF e.src = "reader" THEN [st EXCEPT !.r = FALSE]
                              ELSE IF e.src = "top" THEN [st EXCEPT !.t = FALSE] ELSE st)
       ELSE IF e.a = "rclose" THEN [st EXCEPT !.r = TRUE]
       ELSE IF e.a = "readtop" THEN (IF e.src = "reader" THEN [r |-> FALSE, t |-> TRUE] ELSE [st EXCEPT !.t = TRUE])
       ELSE st
Avail == (IF ObjState(h).r THEN {"reader"} ELSE {}) \cup (IF ObjState(h).t /\ Cap[fmt].top THEN {"top"} ELSE {})
SrcOk(src) == /\ src \in {"new"} \cup Avail
              /\ (Avail = {} \/ (src # "new") \in ReuseSet)
ROpen(delta, src) ==
  /\ phase = "written" /\ nb + delta >= 1
  /\ delta # 0 => nb >= 1      \* an empty frame against a non-empty topology is not specified
  /\ delta # 0 => fmt \notin NoMismatch
  /\ SrcOk(src)
  /\ phase' = "reading" /\ rn' = nb + delta
  /\ started' = FALSE /\ failed' = FALSE /\ rpos' = 0 /\ extra' = 0
  /\ h' = Append(h, [a |-> "ropen", rn |-> nb + delta, reuse |-> (src # "new"), src |-> src])
  /\ UNCHANGED <<fmt, nb, hv, hf, base, cur, file, nfiles>>

RFirst ==
  /\ phase = "reading" /\ ~started /\ ~failed
  /\ IF rn = nb
       THEN /\ started' = TRUE /\ rpos' = 1 /\ failed' = FALSE
            /\ h' = Append(h, [a |-> "rfirst", err |-> FALSE, ret |-> TRUE, k |-> 1,
                               exp |-> Stored(fmt, file[1])])
       ELSE /\ failed' = TRUE /\ UNCHANGED <<started, rpos>>
            /\ h' = Append(h, [a |-> "rfirst", err |-> TRUE])
  /\ UNCHANGED <<fmt, nb, hv, hf, phase, base, cur, file, nfiles, rn, extra>>

RNext ==
  /\ phase = "reading" /\ started /\ ~failed /\ extra < ExtraNext
  /\ IF rpos < Len(file)
       THEN /\ rpos' = rpos + 1 /\ UNCHANGED extra
            /\ h' = Append(h, [a |-> "rnext", err |-> FALSE, ret |-> TRUE, k |-> rpos + 1,
                               exp |-> Stored(fmt, file[rpos + 1])])
       ELSE /\ extra' = extra + 1 /\ UNCHANGED rpos
            /\ h' = Append(h, [a |-> "rnext", err |-> FALSE, ret |-> FALSE, k |-> 0])
  /\ UNCHANGED <<fmt, nb, hv, hf, phase, base, cur, file, nfiles, rn, started, failed>>

\* the next frame is offered a topology with a different bead count
RNextMismatch(delta) ==
  /\ phase = "reading" /\ started /\ ~failed /\ rpos < Len(file)
  /\ delta # 0 /\ nb + delta >= 1 /\ fmt \notin NoMismatch
  /\ failed' = TRUE /\ rn' = nb + delta
  /\ h' = Append(h, [a |-> "rnextmis", rn |-> nb + delta, err |-> TRUE])
  /\ UNCHANGED <<fmt, nb, hv, hf, phase, base, cur, file, nfiles, started, rpos, extra>>

RClose ==
  /\ phase = "reading" /\ (started \/ failed)
  /\ phase' = "closed"
  /\ h' = Append(h, [a |-> "rclose"])
  /\ UNCHANGED <<fmt, nb, hv, hf, base, cur, file, nfiles, rn, started, failed, rpos, extra>>

\* cont: the file session goes on with a trajectory reader session (which may use this very object)
RReadTopology(src, cont) ==
  /\ phase = "written" /\ Cap[fmt].top
  /\ SrcOk(src)
  /\ cont => (TRUE \in ReuseSet /\ (h = <<>> \/ h[Len(h)].a # "readtop"))
  /\ phase' = IF cont THEN "written" ELSE "closed"
  /\ h' = Append(h, [a |-> "readtop", exp |-> TopStored(fmt, file[1]), reuse |-> (src # "new"), src |-> src])
  /\ UNCHANGED <<fmt, nb, hv, hf, base, cur, file, nfiles, rn, started, failed, rpos, extra>>

Next ==
  \/ \E app \in BOOLEAN, reuse \in BOOLEAN : WOpen(app, reuse)
  \/ \E fr \in Frames : WWrite(fr)
  \/ WClose
  \/ \E d \in {-1, 0, 1}, src \in {"new", "reader", "top"} : ROpen(d, src)
  \/ RFirst \/ RNext \/ RClose
  \/ \E src \in {"new", "reader", "top"}, cont \in BOOLEAN : RReadTopology(src, cont)
  \/ \E d \in {-1, 1} : RNextMismatch(d)
Spec == Init /\ [][Next]_vars

\* ---------------------------------------------------------------------------
\* properties of the channel, stated over the history only (independent of the bookkeeping
\* variables file/rpos/extra that generate it)
RECURSIVE WrittenIn(_, _)
\* frames in the file after the prefix hh of the history: a non-append wopen truncates
WrittenIn(hh, acc) ==
  IF hh = <<>> THEN acc
  ELSE LET e == Head(hh) IN
       WrittenIn(Tail(hh), IF e.a = "wopen" /\ ~e.app THEN <<>>
                           ELSE IF e.a = "wwrite" THEN Append(acc, e.fr) ELSE acc)

LastIdx(a) == IF \E k \in 1..Len(h) : h[k].a = a
              THEN CHOOSE k \in 1..Len(h) : h[k].a = a /\ \A j \in (k + 1)..Len(h) : h[j].a # a
              ELSE 0
\* calls of the current/last reader session
Session == LET o == LastIdx("ropen")
               c == IF \E k \in (o + 1)..Len(h) : h[k].a = "rclose"
                    THEN CHOOSE k \in (o + 1)..Len(h) : h[k].a = "rclose" ELSE Len(h)
           IN IF o = 0 THEN <<>> ELSE SubSeq(h, o + 1, c)
SessionFile == LET o == LastIdx("ropen") IN WrittenIn(SubSeq(h, 1, o), <<>>)
IsRead(e) == e.a \in {"rfirst", "rnext"} /\ ~e.err
Delivered == SelectSeq(Session, LAMBDA e : IsRead(e) /\ e.ret)

\* frames come back in writing order, each as the projection of the frame written
OrderAndContent ==
  /\ Len(Delivered) <= Len(SessionFile)
  /\ \A k \in 1..Len(Delivered) : /\ Delivered[k].k = k
                                  /\ Delivered[k].exp = Stored(fmt, SessionFile[k])
\* "false" exactly after the last frame, and again when called again
EofExact ==
  \A j \in 1..Len(Session) :
     IsRead(Session[j]) =>
        LET before == Len(SelectSeq(SubSeq(Session, 1, j - 1), LAMBDA e : IsRead(e) /\ e.ret))
        IN Session[j].ret = (before < Len(SessionFile))
\* count preserved: a session that saw "false" has delivered every frame
CountPreserved ==
  (\E j \in 1..Len(Session) : IsRead(Session[j]) /\ ~Session[j].ret) => Len(Delivered) = Len(SessionFile)
\* a topology with a different bead count is an error, never a frame
MismatchIsError ==
  LET o == LastIdx("ropen") IN
  (o > 0 /\ h[o].rn # nb) => \A e \in {Session[j] : j \in 1..Len(Session)} :
                                 e.a \in {"rfirst", "rnext"} => e.err
NothingAfterError ==
  \A j \in 1..Len(Session) : (Session[j].a \in {"rfirst", "rnextmis"} /\ Session[j].err)
                               => \A i \in (j + 1)..Len(Session) : Session[i].a = "rclose"
\* the model's file variable agrees with the history
FileIsHistory == phase \in {"written", "reading", "closed"} => file = WrittenIn(h, <<>>)

Leaf == (Emit /\ phase = "closed") =>
          PrintT(ToJson([fmt |-> fmt, n |-> nb, hv |-> hv, hf |-> hf, units |-> Units(fmt),
                         beads |-> [i \in 1..nb |-> [name |-> BName(i), type |-> BType(i),
                                                     resnr |-> BResnr(i), resname |-> BResname(i)]],
                         h |-> h]))
\* only the last session is new in a state with phase = "closed": histories are emitted at
\* every close, so a 2-session behaviour is emitted once with its full history
=============================================================================
