---- MODULE MCXmlThorough ----
EXTENDS XmlTop
====
