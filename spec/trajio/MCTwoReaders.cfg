SPECIFICATION TwoSpec
CONSTANTS
  Formats = {"gro", "dump", "xyz", "pdb", "dlph", "dlpc"}
  NSet = {2}
  MaxFrames = 2
  Pids = {0}
  MaxFiles = 2
  ExtraNext = 1
  HVSet = {TRUE}
  HFSet = {TRUE}
  ReuseSet = {FALSE}
  Emit = TRUE
INVARIANTS Independent FilesDiffer TwoLeaf
CHECK_DEADLOCK FALSE
