SPECIFICATION Spec
CONSTANTS
  Formats = {"gro", "dump", "xyz", "pdb", "dlph"}
  NSet = {3}
  MaxFrames = 4
  Pids = {1}
  MaxFiles = 1
  ExtraNext = 3
  HVSet = {FALSE, TRUE}
  HFSet = {FALSE, TRUE}
  ReuseSet = {FALSE}
  Emit = TRUE
INVARIANTS OrderAndContent EofExact CountPreserved MismatchIsError NothingAfterError FileIsHistory Leaf
CHECK_DEADLOCK FALSE
