---- MODULE MCTwoReaders ----
EXTENDS TwoReaders
====
