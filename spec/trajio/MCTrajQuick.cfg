SPECIFICATION Spec
CONSTANTS
  Formats = {"gro", "dump", "xyz", "pdb", "dlph", "dlpc"}
  NSet = {1, 5}
  MaxFrames = 2
  Pids = {0, 1}
  MaxFiles = 1
  ExtraNext = 2
  Emit = TRUE
INVARIANTS OrderAndContent EofExact CountPreserved MismatchIsError NothingAfterError FileIsHistory Leaf
CHECK_DEADLOCK FALSE
