SPECIFICATION Spec
CONSTANTS
  MaxTypes = 2
  NMols = {1, 2}
  Emit = TRUE
INVARIANTS IdsContiguous MolsPartition BondedInside Leaf
CHECK_DEADLOCK FALSE
