------------------------------- MODULE XmlBase -------------------------------
(* C08, mode L: XML topology on top of a base topology file (the common way VOTCA is used):
   <topology base="conf.gro"><molecules><clear/><define .../>...<rename .../></molecules>
   <beadtypes><rename .../><mass .../></beadtypes></topology>, read through
   TopReaderFactory "xml" (XMLTopologyReader -> GROReader -> Topology::CreateMoleculesByRange /
   RenameMolecules / RenameBeadType / SetBeadTypeMass).  The harness prints base file and XML
   from `inp`; the reader must deliver `exp`.                                              *)
EXTENDS Integers, Sequences, FiniteSets, TLC, Json
CONSTANT Emit
VARIABLE v
vars == <<v>>

\* ---- XML topology on top of a base file: <topology base="x.gro"> + clear/define/rename,
\*      beadtypes rename/mass (share/xml/topol.xml: define "first - the id of first [bead], nbeads,
\*      nmols"; rename "range start:end"; numbering starts with 1; bead-type names are wildcards)
NB == 6
BaseNames == <<"C", "N", "O", "H", "N", "C">>     \* a gro topology gives type = name, mass 1, charge 0
Defs == { << [name |-> "M1", first |-> 1, nbeads |-> 2, nmols |-> 3] >>,
          << [name |-> "M1", first |-> 1, nbeads |-> 3, nmols |-> 1], [name |-> "M2", first |-> 4, nbeads |-> 1, nmols |-> 3] >>,
          << [name |-> "M1", first |-> 2, nbeads |-> 2, nmols |-> 2] >>,
          << [name |-> "M1", first |-> 1, nbeads |-> 6, nmols |-> 1] >>,
          << [name |-> "M1", first |-> 3, nbeads |-> 1, nmols |-> 4] >> }
RECURSIVE DefMols(_)
\* molecules created by a sequence of <define>: copy k holds beads first-1+(k-1)*nbeads .. (0-based ids)
DefMols(ds) ==
  IF ds = <<>> THEN <<>>
  ELSE LET d == Head(ds) IN
       [k \in 1..d.nmols |-> [name |-> d.name,
                               beads |-> [b \in 1..d.nbeads |-> d.first - 1 + (k - 1) * d.nbeads + (b - 1)]]]
       \o DefMols(Tail(ds))
\* <rename name range="a:b">: molecules a..b (1-based) get the new name
Renamed(ms, rn) == IF rn = <<>> THEN ms
                   ELSE [k \in 1..Len(ms) |-> IF k >= rn[1] /\ k <= rn[2] THEN [ms[k] EXCEPT !.name = "RN"] ELSE ms[k]]
Ranges(nm) == {<<>>, <<1, 1>>} \cup (IF nm >= 3 THEN {<<2, 3>>} ELSE {}) \cup {<<1, nm>>}
\* <beadtypes><rename name="O" newname="OX"/><mass name=(N | *) value="14.007"/>
TypeAfter(i, ren) == IF ren /\ BaseNames[i] = "O" THEN "OX" ELSE BaseNames[i]
MassAfter(i, ren, ms) == IF ms = "none" THEN 1000
                         ELSE IF ms = "*" \/ TypeAfter(i, ren) = ms THEN 14007 ELSE 1000
BaseVec(ds, rn, ren, ms) ==
  [kind |-> "xmlbase",
   inp |-> [names |-> BaseNames, defines |-> ds, rename |-> rn, typerename |-> ren, mass |-> ms],
   exp |-> [beads |-> [i \in 1..NB |-> [id |-> i - 1, name |-> BaseNames[i], type |-> TypeAfter(i, ren),
                                         mass |-> MassAfter(i, ren, ms)]],
            molecules |-> Renamed(DefMols(ds), rn)]]
BaseVectors == UNION { { BaseVec(ds, rn, ren, ms) : rn \in Ranges(Len(DefMols(ds))), ren \in BOOLEAN,
                                                   ms \in {"none", "N", "*", "OX"} } : ds \in Defs }
\* every define fits into the base file (a partial last molecule is not specified anywhere)
ASSUME \A w \in BaseVectors : \A m \in 1..Len(w.exp.molecules) :
          \A b \in 1..Len(w.exp.molecules[m].beads) : w.exp.molecules[m].beads[b] \in 0..(NB - 1)


Init == v \in BaseVectors
Next == UNCHANGED v
Spec == Init /\ [][Next]_vars

\* design level: defines never overlap and molecule ids follow the order of the defines
Disjoint == \A a \in 1..Len(v.exp.molecules), b \in 1..Len(v.exp.molecules) :
              a # b => {v.exp.molecules[a].beads[i] : i \in 1..Len(v.exp.molecules[a].beads)} \cap
                       {v.exp.molecules[b].beads[i] : i \in 1..Len(v.exp.molecules[b].beads)} = {}
\* vacuity: renamed molecules, renamed types and changed masses all occur
ASSUME \E w \in BaseVectors : \E m \in 1..Len(w.exp.molecules) : w.exp.molecules[m].name = "RN"
ASSUME \E w \in BaseVectors : \E i \in 1..NB : w.exp.beads[i].type = "OX" /\ w.exp.beads[i].mass = 14007
Leaf == Emit => PrintT(ToJson(v))
=============================================================================
