---- MODULE MCLarge ----
EXTENDS Large
====
