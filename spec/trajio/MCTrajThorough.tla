---- MODULE MCTrajThorough ----
EXTENDS TrajIO
====
