---- MODULE MCTablesQuick ----
EXTENDS Tables
====
