---- MODULE MCXmlBase ----
EXTENDS XmlBase
====
