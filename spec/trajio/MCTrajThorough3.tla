---- MODULE MCTrajThorough3 ----
EXTENDS TrajIO
====
