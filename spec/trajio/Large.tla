------------------------------- MODULE Large -------------------------------
(* C08: the "large frame" payload class.  Formats with fixed-width index columns
   (gro: %5d atom and residue number; pdb: %5d serial, %4d residue number; dlpoly: setw(10)
   index) must still round-trip a frame with more than 99999 beads.  What the formats AS
   IMPLEMENTED do there:
     gro  writer wraps atom and residue numbers modulo 100000 (as gromacs does), the reader
          takes every field from fixed columns and ignores the atom number: positions and
          velocities of all beads must come back.  (Topology reading needs residue numbers
          1..99999: a wrapped residue number 0 is rejected - not demanded, residues kept below.)
     pdb  writer wraps the serial modulo 100000 and the residue number modulo 10000 (no
          hybrid-36), the reader ignores the serial and, in trajectory mode, the residue
          number: positions must come back.  (Topology reading with >= 10000 residues is not
          representable - not demanded.)
     dlph index printed with setw(10) and read as a token: no limit below 10^10.
     xyz, dump: no fixed-width index.
   One behaviour per format: the history is fixed (write one triclinic frame with velocities,
   read it, hit the end of the file) and built with the SAME Given/Stored operators as the
   small histories, so it is judged by the same invariants and replayed by the same code.  *)
EXTENDS TrajIO

CONSTANTS LargeFormats, LargeTop, LargeN

LFrame == [bc |-> "tric", pid |-> 99]

LargeInit ==
  /\ fmt \in LargeFormats /\ nb = LargeN /\ hv = TRUE /\ hf = FALSE
  /\ \E top \in BOOLEAN :
       /\ top => fmt \in LargeTop
       /\ LET g == Given(fmt, LFrame, 1, 0) IN
          /\ cur = <<g>> /\ file = <<g>>
          /\ h = <<[a |-> "wopen", app |-> FALSE, reuse |-> FALSE], [a |-> "wwrite", fr |-> g], [a |-> "wclose"]>> \o
                 (IF top THEN <<[a |-> "readtop", exp |-> TopStored(fmt, g), reuse |-> FALSE, src |-> "new"]>>
                  ELSE <<[a |-> "ropen", rn |-> LargeN, reuse |-> FALSE, src |-> "new"],
                         [a |-> "rfirst", err |-> FALSE, ret |-> TRUE, k |-> 1, exp |-> Stored(fmt, g)],
                         [a |-> "rnext", err |-> FALSE, ret |-> FALSE, k |-> 0],
                         [a |-> "rclose"]>>)
       /\ started = ~top /\ rpos = (IF top THEN 0 ELSE 1) /\ extra = (IF top THEN 0 ELSE 1)
  /\ phase = "closed" /\ base = 0 /\ nfiles = 1 /\ rn = LargeN /\ failed = FALSE
LargeNext == UNCHANGED vars
LargeSpec == LargeInit /\ [][LargeNext]_vars

\* neighbouring beads carry different numbers in every column, so a shifted column is visible
NeighboursDiffer ==
  LET g == file[1] IN \A i \in {1, 2, 99998, 99999, 100000, 100001, LargeN - 1} : \A c \in 1..3 :
        g.pos[i][c] # g.pos[i + 1][c] /\ (Cap[fmt].vel => g.vel[i][c] # g.vel[i + 1][c])
=============================================================================
