------------------------------- MODULE Tables -------------------------------
(* C08, mode L part: tools::Table (Save/Load, flags, error column), IMC matrices and index
   ranges (csg/src/libcsg/imcio.cc): write o read = identity.

   A file is modelled as a sequence of lines, a line as a sequence of tokens.  Numbers are
   decimal lattice values [m |-> K, e |-> E] = K * 10^-E with at most as many significant
   digits as the writer prints (Table: precision 10, imcio: precision 8), so the text is
   exact.  One initial state per vector; the vector and the expected read-back are exported
   as JSON and replayed into Table::Save/Load, imcio_write_* / imcio_read_*.               *)
EXTENDS Integers, Sequences, FiniteSets, TLC, Json

CONSTANTS TableN,      \* row counts for tables
          RowSet, ColSet,  \* matrix shapes
          Pids, Emit
VARIABLES v
vars == <<v>>

Val(k, e) == [m |-> k, e |-> e]
\* non-finite values (a Table column may hold them: rdf of an empty bin, error of a single sample):
\* exponent code 99, m = 1: +inf, -1: -inf, 0: nan (compared as "is nan")
PInf == Val(1, 99)
NInf == Val(-1, 99)
NaN  == Val(0, 99)
Special(k) == IF k % 3 = 0 THEN PInf ELSE IF k % 3 = 1 THEN NInf ELSE NaN

\* ---- payload ------------------------------------------------------------------
H(p, i, j) == (((p * 7919 + i * 613 + j * 211) * 4099 + 1234) % 200003)
\* up to `digits` significant digits, both signs, exponents 0..15; all entries of one object differ
Num(p, i, j, digits) ==
  LET lim == IF digits >= 9 THEN 999999999 ELSE 99999999
      k == IF p = 0 THEN (10 * i + j + 1) * (IF (i + j) % 2 = 0 THEN 1 ELSE -1)
           ELSE IF p = 1 THEN (IF (i + j) % 3 = 0 THEN lim - 10 * i - j
                               ELSE IF (i + j) % 3 = 1 THEN -(lim - 10 * i - j) ELSE 10 * i + j)
           ELSE ((H(p, i, j) * 9973 + 31 * i + 17 * j) % (2 * lim + 1)) - lim
      e == IF p = 0 THEN 0 ELSE IF p = 1 THEN ((i + 2 * j) % 4) * 5 ELSE (H(p, j, i) % 16)
  IN Val(k, e)

\* ---- Table ----------------------------------------------------------------------
FlagSet == <<"i", "o", "u", "_", "0">>      \* "_" blank, "0" NUL: not representable in the file
Flag(p, fp, i) == FlagSet[((i + fp + p) % 5) + 1]
\* the file stores x, y, [yerr], and the flag when it is one of i o u; a blank flag is not written,
\* so nothing is demanded about it ("*")
StoredFlag(f) == IF f \in {"i", "o", "u"} THEN f ELSE "*"

\* What Save writes for a row and what Load must return (format as implemented, table.cc):
\*   Save:  "x y"  or  "x y yerr" (table with error column), followed by " f" only when the flag
\*          is not blank/NUL; numbers with 10 significant digits, non-finite ones as inf / -inf / nan.
\*   Load:  the last token is the flag iff it IS one of the strings "i" "o" "u"; a third numeric
\*          token is yerr.  So "x y inf" (blank flag, yerr = +inf) is a row with yerr = +inf and the
\*          default flag, NOT a row with flag i.  x, y, yerr come back unchanged (nan as nan).
\*   Not representable: a blank/NUL flag (read back as the default 'i': nothing demanded, "*").
\* Comment (Table::set_comment, written by Save as "# ..." lines, table.cc): a real newline or the two
\* characters backslash-n in the text start a new comment line ("\n# "), so that NO line of the comment
\* can be taken for data: Load returns exactly the rows written, whatever the comment says.
\* com: 0 none; 1 one line; 2 two lines separated by the escape backslash-n; 3 two lines separated by a
\* real newline; 4 real newlines, the continuation lines look like data rows ("0.05 17", "3 4 i")
Comment(com) ==
  CASE com = 0 -> [lines |-> <<>>, sep |-> "none"]
    [] com = 1 -> [lines |-> <<"created by hand">>, sep |-> "none"]
    [] com = 2 -> [lines |-> <<"first line", "second line">>, sep |-> "escape"]
    [] com = 3 -> [lines |-> <<"first line", "second line">>, sep |-> "newline"]
    [] OTHER   -> [lines |-> <<"note", "0.05 17", "3 4 i">>, sep |-> "newline"]
\* nf: 0 finite; 1 non-finite yerr; 2 non-finite y; 3 both (x stays finite)
TableVec(n, hasy, com, p, fp, nf) ==
  LET x == [i \in 1..n |-> Num(p, i, 1, 10)]
      y == [i \in 1..n |-> IF nf \in {2, 3} THEN Special(i + 1) ELSE Num(p, i, 2, 10)]
      e == [i \in 1..n |-> IF nf \in {1, 3} THEN Special(i + 2) ELSE Num(p, i, 3, 10)]
      fl == [i \in 1..n |-> Flag(p, fp, i)]
  IN [kind |-> "table",
      inp |-> [n |-> n, hasyerr |-> hasy, comment |-> Comment(com), x |-> x, y |-> y, yerr |-> e, flags |-> fl],
      exp |-> [n |-> n, x |-> x, y |-> y, flags |-> [i \in 1..n |-> StoredFlag(fl[i])],
               hasyerr |-> hasy, yerr |-> IF hasy THEN e ELSE <<>>]]

\* ---- hand-written table files ---------------------------------------------------------
\* What Table::Load accepts besides its own output (table.cc: "remove comments and xmgrace stuff",
\* "skip empty lines", "if first line is only 1 token, it's the size"): '#' comments (whole line or
\* after the data), '@' xmgrace lines, blank lines, blanks or tabs between columns, an optional
\* first data line holding the number of rows, rows with or without a flag (default 'i').
\* The harness prints the lines below; the rows must come back unchanged whatever the decoration.
TextVec(n, p, deco) ==
  LET com == deco[1]  xm == deco[2]  size == deco[3]  blank == deco[4]  tabs == deco[5]  trail == deco[6]
      x == [i \in 1..n |-> Num(p, i, 1, 10)]
      y == [i \in 1..n |-> Num(p, i, 2, 10)]
      fl == [i \in 1..n |-> IF i % 2 = 1 THEN FlagSet[(i % 3) + 1] ELSE "_"]    \* "_": no flag column
      Row(i) == (IF blank /\ i > 1 THEN <<[t |-> "blank"]>> ELSE <<>>) \o
                (IF com /\ i = 2 THEN <<[t |-> "comment"]>> ELSE <<>>) \o
                <<[t |-> "data", x |-> x[i], y |-> y[i], flag |-> fl[i], tab |-> tabs, trail |-> trail /\ i % 2 = 0]>>
      RECURSIVE Rows(_)
      Rows(i) == IF i > n THEN <<>> ELSE Row(i) \o Rows(i + 1)
  IN [kind |-> "tabletext",
      inp |-> (IF com THEN <<[t |-> "comment"]>> ELSE <<>>) \o
              (IF xm THEN <<[t |-> "xmgrace"], [t |-> "xmgrace2"]>> ELSE <<>>) \o
              (IF size THEN <<[t |-> "size", n |-> n]>> ELSE <<>>) \o Rows(1) \o
              (IF blank THEN <<[t |-> "blank"]>> ELSE <<>>),
      exp |-> [n |-> n, x |-> x, y |-> y, flags |-> [i \in 1..n |-> IF fl[i] = "_" THEN "i" ELSE fl[i]]]]

\* ---- matrices ---------------------------------------------------------------------
Mat(r, c, p) == [i \in 1..r |-> [j \in 1..c |-> Num(p, i, j, 8)]]
\* imcio_write_matrix: one line per row (or per selected index, square sub-matrix)
WriteRows(M, sel) ==
  IF sel = <<>> THEN M
  ELSE [a \in 1..Len(sel) |-> [b \in 1..Len(sel) |-> M[sel[a]][sel[b]]]]
Flat(lines) == LET RECURSIVE F(_) F(k) == IF k = 0 THEN <<>> ELSE F(k - 1) \o lines[k] IN F(Len(lines))
\* the meaning of the file: entry (i,j) is token j of line i
SpecRead(lines) == [rows |-> Len(lines), cols |-> Len(lines[1]), data |-> Flat(lines)]
\* two ways of turning the flat token list back into a matrix
RowMajorAt(T, r, c, i, j) == T[(i - 1) * c + j]
ColMajorAt(T, r, c, i, j) == T[(j - 1) * r + i]

Sels(r, c) == {<<>>} \cup (IF r >= 2 /\ c >= 2 THEN {<<2, 1>>} ELSE {})
                     \cup (IF r >= 3 /\ c >= 3 THEN {<<1, 3>>} ELSE {})
MatrixVec(r, c, p, sel) ==
  LET lines == WriteRows(Mat(r, c, p), sel) IN
  [kind |-> "matrix",
   inp |-> [rows |-> r, cols |-> c, data |-> Flat(Mat(r, c, p)), sel |-> sel],
   exp |-> SpecRead(lines)]

\* ---- dS (imcio_write_dS, read by Table::Load in csg_imc_solve) --------------------
DsVec(n, p, sel) ==
  LET x == [i \in 1..n |-> Num(p, i, 1, 8)]
      y == [i \in 1..n |-> Num(p, i, 2, 8)]
      pick == IF sel = <<>> THEN [i \in 1..n |-> i] ELSE sel
  IN [kind |-> "ds", inp |-> [n |-> n, x |-> x, y |-> y, sel |-> sel],
      exp |-> [n |-> Len(pick), x |-> [a \in 1..Len(pick) |-> x[pick[a]]],
               y |-> [a \in 1..Len(pick) |-> y[pick[a]]]]]

\* ---- index ranges --------------------------------------------------------------------
\* a block b:s:e denotes b, b+s, ... <= e (s >= 1)
RECURSIVE Enum(_, _, _)
Enum(b, e, s) == IF b > e THEN <<>> ELSE <<b>> \o Enum(b + s, e, s)
RECURSIVE EnumBlocks(_)
EnumBlocks(bl) == IF bl = <<>> THEN <<>> ELSE Enum(bl[1][1], bl[1][2], bl[1][3]) \o EnumBlocks(Tail(bl))
BlockSets == { << <<1, 10, 1>> >>, << <<11, 20, 2>>, <<25, 25, 1>> >>, << <<3, 3, 1>> >>,
               << <<1, 4, 3>>, <<7, 9, 1>>, <<20, 31, 5>> >>, << <<5, 6, 7>> >> }
IndexVec(bs1, bs2, two) ==
  LET rs == IF two THEN << [name |-> "A-A", blocks |-> bs1], [name |-> "B_x-C.1", blocks |-> bs2] >>
            ELSE << [name |-> "A-A", blocks |-> bs1] >>
  IN [kind |-> "index", inp |-> rs,
      exp |-> [k \in 1..Len(rs) |-> [name |-> rs[k].name, values |-> EnumBlocks(rs[k].blocks)]]]

Vectors ==
     { TableVec(n, hy, com, p, fp, 0) : n \in TableN, hy \in BOOLEAN, com \in 0..4, p \in Pids, fp \in 0..1 }
  \* non-finite y / yerr with every flag (incl. blank and NUL) on every row
  \cup { TableVec(n, hy, 0, p, fp, nf) : n \in TableN \ {0}, hy \in BOOLEAN, p \in {0}, fp \in 0..4, nf \in 1..3 }
  \cup { TextVec(n, p, d) : n \in {1, 3}, p \in {0, 2}, d \in [1..6 -> BOOLEAN] }
  \cup UNION { { MatrixVec(r, c, p, sel) : sel \in Sels(r, c) } : r \in RowSet, c \in ColSet, p \in Pids }
  \cup UNION { { DsVec(n, p, sel) : sel \in ({<<>>} \cup IF n >= 3 THEN {<<1, 3>>} ELSE {}) } : n \in TableN \ {0}, p \in Pids }
  \cup { IndexVec(b1, b2, two) : b1 \in BlockSets, b2 \in BlockSets, two \in BOOLEAN }

Init == v \in Vectors
Next == UNCHANGED v
Spec == Init /\ [][Next]_vars

\* ---- design-level checks -----------------------------------------------------------------
\* reading the token list row by row restores the matrix that was written, for every shape
RowMajorIsIdentity ==
  v.kind = "matrix" =>
    LET r == v.exp.rows  c == v.exp.cols  T == v.exp.data IN
    /\ Len(T) = r * c
    /\ \A i \in 1..r, j \in 1..c :
         RowMajorAt(T, r, c, i, j) =
           (IF v.inp.sel = <<>> THEN v.inp.data[(i - 1) * v.inp.cols + j]
            ELSE v.inp.data[(v.inp.sel[i] - 1) * v.inp.cols + v.inp.sel[j]])
\* ... whereas a column-major interpretation of the same list (what Eigen::Map<MatrixXd> does)
\* is the identity only for a single row or column (all entries of a payload are distinct)
ColMajorScrambles ==
  (v.kind = "matrix" /\ v.inp.sel = <<>>) =>
    LET r == v.exp.rows  c == v.exp.cols  T == v.exp.data IN
    ((r > 1 /\ c > 1) <=> \E i \in 1..r, j \in 1..c : ColMajorAt(T, r, c, i, j) # RowMajorAt(T, r, c, i, j))
\* a written range enumerates in increasing order inside each block
RangesSorted ==
  v.kind = "index" => \A k \in 1..Len(v.inp) : \A b \in 1..Len(v.inp[k].blocks) :
      LET bl == v.inp[k].blocks[b]  en == Enum(bl[1], bl[2], bl[3]) IN
      /\ Len(en) >= 1 /\ en[1] = bl[1] /\ en[Len(en)] <= bl[2] /\ en[Len(en)] + bl[3] > bl[2]

\* every (flag, special value) combination occurs in some row with an error column
\* (evaluated once: the vector set is a constant)
NonFiniteCovered ==
  \A f \in {"i", "o", "u", "_", "0"} : \A sp \in {PInf, NInf, NaN} :
     \E w \in Vectors : /\ w.kind = "table" /\ w.inp.hasyerr
                         /\ \E i \in 1..w.inp.n : w.inp.flags[i] = f /\ w.inp.yerr[i] = sp
ASSUME NonFiniteCovered

\* a multi-line comment whose continuation looks like a data row occurs, also for the empty table
ASSUME \E w \in Vectors : w.kind = "table" /\ w.inp.n = 0 /\ w.inp.comment.sep = "newline" /\ Len(w.inp.comment.lines) = 3

Leaf == Emit => PrintT(ToJson(v))
=============================================================================
