---- MODULE MCTrajTiny ----
EXTENDS TrajIO
====
