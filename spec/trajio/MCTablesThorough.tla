---- MODULE MCTablesThorough ----
EXTENDS Tables
====
