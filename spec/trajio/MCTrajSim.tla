---- MODULE MCTrajSim ----
EXTENDS TrajIO
====
