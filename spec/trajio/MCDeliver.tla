---- MODULE MCDeliver ----
EXTENDS Deliver
====
