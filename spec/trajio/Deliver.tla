------------------------------- MODULE Deliver -------------------------------
(* C08: delivery of frames into DIFFERENT Topology objects through one reader.
   The threaded applications give every worker its own Topology and call
   reader->NextFrame(worker_top) on the one shared reader.  Here: topology A is the reader's
   own one, B is a copy made (Topology::CopyTopologyData, no coordinates) BEFORE the first frame
   is read, C a copy made AFTER the first frame.  One file of NFr frames; every call
   FirstFrame / NextFrame ... / one call beyond the end chooses its target freely.
   Property: what a call delivers into the object it is given (positions, velocities, forces,
   box, step, time - as far as the format carries them) is the next frame of the file, whatever
   objects received the earlier frames; objects that were not passed are not touched (checked
   by the harness: the driver dumps all three objects after every call).                    *)
EXTENDS TrajIO

VARIABLES dbc,    \* box class of the frames of the file
          dpos    \* calls made
dvars == <<vars, dbc, dpos>>

NFr == IF Cap[fmt].multi THEN 3 ELSE 1
DFile == [k \in 1..NFr |-> Given(fmt, [bc |-> dbc, pid |-> 0], k, 0)]
\* with a time-independent box the file has ONE box (that of its first frame)
DStored(k) == IF fmt \in H5Static THEN [Stored(fmt, DFile[k]) EXCEPT !.box = DFile[1].box]
              ELSE Stored(fmt, DFile[k])

DInit == /\ Init
         /\ dbc \in (IF fmt = "pdbx" THEN {"ortho"} ELSE BoxClasses)
         /\ dpos = 0

DCall(t) ==
  /\ dpos <= NFr
  /\ dpos = 0 => t \in {1, 2}          \* C does not exist before the first frame
  /\ dpos' = dpos + 1
  /\ LET hh == IF h = <<>> THEN <<[a |-> "file", frames |-> DFile]>> ELSE h
         e == IF dpos < NFr
              THEN [a |-> IF dpos = 0 THEN "rfirst" ELSE "rnext", tgt |-> t, err |-> FALSE, ret |-> TRUE,
                    k |-> dpos + 1, exp |-> DStored(dpos + 1)]
              ELSE [a |-> "rnext", tgt |-> t, err |-> FALSE, ret |-> FALSE, k |-> 0]
     IN h' = Append(hh, e)
  /\ UNCHANGED <<fmt, nb, hv, hf, phase, base, cur, file, nfiles, rn, started, failed, rpos, extra, dbc>>
DNext == \E t \in 1..3 : DCall(t)
DSpec == DInit /\ [][DNext]_dvars

Done == dpos = NFr + 1
Calls == SelectSeq(h, LAMBDA e : e.a # "file")
\* the j-th call delivers frame j, whatever the targets were
TargetIndependent ==
  \A j \in 1..Len(Calls) : IF j <= NFr THEN Calls[j].ret /\ Calls[j].k = j /\ Calls[j].exp = DStored(j)
                                       ELSE ~Calls[j].ret
\* consecutive frames differ (a frame delivered into the wrong object, or not delivered, is visible)
FramesDiffer == NFr > 1 => DFile[1].pos # DFile[2].pos
DLeaf == (Emit /\ Done) =>
  PrintT(ToJson([fmt |-> fmt, n |-> nb, hv |-> hv, hf |-> hf, units |-> Units(fmt),
                 beads |-> [i \in 1..nb |-> [name |-> BName(i), type |-> BType(i),
                                             resnr |-> BResnr(i), resname |-> BResname(i)]],
                 h |-> h]))
=============================================================================
