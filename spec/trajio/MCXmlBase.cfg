SPECIFICATION Spec
CONSTANTS
  Emit = TRUE
INVARIANTS Disjoint Leaf
CHECK_DEADLOCK FALSE
