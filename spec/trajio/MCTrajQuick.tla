---- MODULE MCTrajQuick ----
EXTENDS TrajIO
====
