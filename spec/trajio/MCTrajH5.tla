---- MODULE MCTrajH5 ----
EXTENDS TrajIO
====
