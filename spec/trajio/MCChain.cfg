SPECIFICATION ChainSpec
CONSTANTS
  Formats = {"gro"}
  NSet = {1, 3}
  MaxFrames = 2
  Pids = {0, 2}
  MaxFiles = 1
  ExtraNext = 1
  HVSet = {FALSE, TRUE}
  HFSet = {FALSE}
  ReuseSet = {FALSE}
  Emit = TRUE
  Mids = {"gro", "dump", "xyz", "pdb", "dlph"}
  ChainLen = 2
INVARIANTS ChainWeaker ChainLeaf
CHECK_DEADLOCK FALSE
