---- MODULE MCXmlQuick ----
EXTENDS XmlTop
====
