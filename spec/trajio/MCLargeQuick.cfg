SPECIFICATION LargeSpec
CONSTANTS
  Formats = {"gro", "pdb"}
  NSet = {100003}
  MaxFrames = 1
  Pids = {99}
  MaxFiles = 1
  ExtraNext = 1
  HVSet = {TRUE}
  HFSet = {FALSE}
  ReuseSet = {FALSE}
  Emit = TRUE
  LargeFormats = {"gro", "pdb"}
  LargeTop = {}
  LargeN = 100003
INVARIANTS OrderAndContent EofExact CountPreserved FileIsHistory NeighboursDiffer Leaf
CHECK_DEADLOCK FALSE
