---- MODULE MCTrajReuse ----
EXTENDS TrajIO
====
