---- MODULE MCTrajH5T ----
EXTENDS TrajIO
====
