SPECIFICATION Spec
CONSTANTS
  Formats = {"h5", "h5s", "h5a", "h5ta"}
  NSet = {2}
  MaxFrames = 2
  Pids = {0, 1}
  MaxFiles = 1
  ExtraNext = 2
  HVSet = {FALSE, TRUE}
  HFSet = {FALSE, TRUE}
  ReuseSet = {FALSE}
  Emit = TRUE
INVARIANTS OrderAndContent EofExact CountPreserved MismatchIsError NothingAfterError FileIsHistory Leaf
CHECK_DEADLOCK FALSE
