SPECIFICATION Spec
CONSTANTS
  Formats = {"gro", "dump", "xyz", "pdb", "pdbx", "dlph", "dlpc"}
  NSet = {2}
  MaxFrames = 1
  Pids = {0}
  MaxFiles = 2
  ExtraNext = 1
  HVSet = {TRUE}
  HFSet = {TRUE}
  ReuseSet = {TRUE}
  Emit = TRUE
INVARIANTS OrderAndContent EofExact CountPreserved MismatchIsError NothingAfterError FileIsHistory Leaf
CHECK_DEADLOCK FALSE
