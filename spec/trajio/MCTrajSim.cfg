SPECIFICATION Spec
CONSTANTS
  Formats = {"gro", "dump", "xyz", "pdb", "pdbx", "dlph", "dlpc"}
  NSet = {0, 1, 2, 5}
  MaxFrames = 4
  Pids = {0, 1, 2, 3, 7, 13, 29, 50}
  MaxFiles = 3
  ExtraNext = 2
  HVSet = {FALSE, TRUE}
  HFSet = {FALSE, TRUE}
  ReuseSet = {FALSE, TRUE}
  Emit = TRUE
INVARIANTS OrderAndContent EofExact CountPreserved MismatchIsError NothingAfterError FileIsHistory Leaf
CHECK_DEADLOCK FALSE
