SPECIFICATION Spec
CONSTANTS
  TableN = {0, 1, 2, 3, 7}
  RowSet = {1, 2, 3, 4}
  ColSet = {1, 2, 3, 4, 5}
  Pids = {0, 1, 2, 3, 4, 5, 6, 7, 8, 9, 10, 11, 12, 13, 14, 15, 16, 17, 18, 19, 20}
  Emit = TRUE
INVARIANTS RowMajorIsIdentity ColMajorScrambles RangesSorted Leaf
CHECK_DEADLOCK FALSE
