SPECIFICATION Spec
CONSTANTS
  MaxTypes = 3
  NMols = {1, 2, 3}
  Emit = TRUE
INVARIANTS IdsContiguous MolsPartition BondedInside Leaf
CHECK_DEADLOCK FALSE
