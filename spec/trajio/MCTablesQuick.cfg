SPECIFICATION Spec
CONSTANTS
  TableN = {0, 1, 3}
  RowSet = {1, 2, 3, 4}
  ColSet = {1, 2, 3, 4, 5}
  Pids = {0, 1, 2}
  Emit = TRUE
INVARIANTS RowMajorIsIdentity ColMajorScrambles RangesSorted Leaf
CHECK_DEADLOCK FALSE
