------------------------------ MODULE PropTree ------------------------------
(* Mode H: votca::tools::Property as a state machine, one action per mutating public
   call (including the error path); after every call the complete observation is
   recorded in the history variable h: the tree (names, order, values, attributes),
   the node returned, get/exists for every key of Keys ("if more than one property
   with this name exists, the last added one"), Select for every filter of Filters.

   Abstract state: the ordered tree only (flat pre-order sequence, root = anonymous
   node of depth 0).  The implementation additionally keeps a name index per node
   (map_); "index and ordered child list agree" is the statement that every lookup
   by name answers from the ordered child list as defined here - checked after
   every call, in particular after deleteChildren and after copying subtrees.     *)
EXTENDS TreeQuery, TLC, Json

CONSTANTS Names, Vals, AddParents, TreeKeys, SetKeys, Keys, Filters, DelParents, CopySrc, CopyDst,
          AttrNodes, AttrKeys, MaxNodes, Depth, Emit
VARIABLES t, h
vars == <<t, h>>

Nd(d, n, v) == [d |-> d, n |-> n, v |-> v, at |-> {}]
Root == << Nd(0, "", "") >>

\* ---- mutators (return <<new tree, returned node or 0>>) ---------------------------------
AddAt(tt, i, name, val) == << InsertAfter(tt, SubEnd(tt, i), << Nd(tt[i].d + 1, name, val) >>), SubEnd(tt, i) + 1 >>
RECURSIVE AddTreeAt(_, _, _, _)
AddTreeAt(tt, i, names, val) ==
  IF Len(names) = 1 THEN AddAt(tt, i, names[1], val)
  ELSE LET k == LastKidNamed(tt, i, names[1]) IN
       IF k # 0 THEN AddTreeAt(tt, k, Tail(names), val)
       ELSE LET a == AddAt(tt, i, names[1], "") IN AddTreeAt(a[1], a[2], Tail(names), val)
DeleteKids(tt, i, pred(_)) ==
  LET doomed == {j \in 1..Len(tt) : \E k \in {Kids(tt, i)[x] : x \in 1..Len(Kids(tt, i))} : pred(tt[k]) /\ InSub(tt, k, j)}
  IN SelectSeq([j \in 1..Len(tt) |-> [nd |-> tt[j], keep |-> j \notin doomed]], LAMBDA e : e.keep)
Unwrap(s) == [j \in 1..Len(s) |-> s[j].nd]
CopyTo(tt, src, dst) == << InsertAfter(tt, SubEnd(tt, dst), Rebase(Sub(tt, src), tt[dst].d + 1)), SubEnd(tt, dst) + 1 >>
SetAttr(at, k, v) == {p \in at : p[1] # k} \cup {<<k, v>>}

\* ---- observation ---------------------------------------------------------------
TreeOut(tt) == [j \in 1..Len(tt) |-> <<tt[j].d, tt[j].n, tt[j].v, tt[j].at, PathOf(tt, j)>>]
Obs(tt) == [tree |-> TreeOut(tt),
            get |-> [k \in Keys |-> Get(tt, k)],
            sel |-> [f \in Filters |-> Select(tt, f)]]
Rec(call, tt, ret, exc) == [call |-> call, ret |-> ret, exc |-> exc, obs |-> Obs(tt)]

Init == t = Root /\ h = <<>>

Step(call, tt, ret, exc) == t' = tt /\ h' = Append(h, Rec(call, tt, ret, exc))

Add == \E pk \in AddParents, n \in Names, v \in Vals :
         LET i == Get(t, pk)  call == [op |-> "add", p |-> pk, n |-> n, v |-> v] IN
         IF i = 0 THEN Step(call, t, 0, TRUE)
         ELSE LET a == AddAt(t, i, n, v) IN Step(call, a[1], a[2], FALSE)
AddTree == \E k \in TreeKeys, v \in Vals :
         LET a == AddTreeAt(t, 1, Tokens(k, {"."}), v) IN Step([op |-> "addtree", k |-> k, v |-> v], a[1], a[2], FALSE)
GetOrAdd == \E k \in TreeKeys :
         LET i == Get(t, k)  call == [op |-> "getoradd", k |-> k] IN
         IF i # 0 THEN Step(call, t, i, FALSE)
         ELSE LET a == AddTreeAt(t, 1, Tokens(k, {"."}), "") IN Step(call, a[1], a[2], FALSE)
Set == \E k \in SetKeys, v \in Vals :
         LET i == Get(t, k)  call == [op |-> "set", k |-> k, v |-> v \o "s"] IN
         IF i = 0 THEN Step(call, t, 0, TRUE)
         ELSE Step(call, [t EXCEPT ![i].v = v \o "s"], i, FALSE)
Del == \E pk \in DelParents, n \in Names :
         LET i == Get(t, pk)  call == [op |-> "del", p |-> pk, n |-> n] IN
         IF i = 0 THEN Step(call, t, 0, TRUE)
         ELSE Step(call, Unwrap(DeleteKids(t, i, LAMBDA nd : nd.n = n)), 0, FALSE)
DelVal == \E pk \in DelParents, v \in Vals :
         LET i == Get(t, pk)  call == [op |-> "delval", p |-> pk, v |-> v] IN
         IF i = 0 THEN Step(call, t, 0, TRUE)
         ELSE Step(call, Unwrap(DeleteKids(t, i, LAMBDA nd : nd.v = v)), 0, FALSE)
Copy == \E s \in CopySrc, pk \in CopyDst :
         LET i == Get(t, s)  j == Get(t, pk)  call == [op |-> "copy", s |-> s, p |-> pk] IN
         IF i = 0 \/ j = 0 THEN Step(call, t, 0, TRUE)
         ELSE LET a == CopyTo(t, i, j) IN Step(call, a[1], a[2], FALSE)
SetAttribute == \E pk \in AttrNodes, k \in AttrKeys, v \in Vals :
         LET i == Get(t, pk)  call == [op |-> "setattr", p |-> pk, k |-> k, v |-> v] IN
         IF i = 0 THEN Step(call, t, 0, TRUE)
         ELSE Step(call, [t EXCEPT ![i].at = SetAttr(@, k, v)], 0, FALSE)
DelAttribute == \E pk \in AttrNodes, k \in AttrKeys :
         LET i == Get(t, pk)  call == [op |-> "delattr", p |-> pk, k |-> k] IN
         IF i = 0 THEN Step(call, t, 0, TRUE)
         ELSE Step(call, [t EXCEPT ![i].at = {q \in @ : q[1] # k}], 0, FALSE)

Next == /\ Len(h) < Depth
        /\ (Add \/ AddTree \/ GetOrAdd \/ Set \/ Del \/ DelVal \/ Copy \/ SetAttribute \/ DelAttribute)
        /\ Len(t') <= MaxNodes
Spec == Init /\ [][Next]_vars

\* ---- properties of the abstract object --------------------------------------------
WF == WellFormed(t)
\* last wins: a key resolves to the last child of that name at every level
LastWins == \A k \in Keys : LET i == Get(t, k) IN
   i # 0 => \A j \in (i + 1)..Len(t) : ~(Parent(t, j) = Parent(t, i) /\ t[j].n = t[i].n)
\* Select with a plain name returns all children of that name in order; get returns the last of them
SelectGet == \A n \in Names : LET s == Select(t, n) IN
   (s = <<>> <=> Get(t, n) = 0) /\ (s # <<>> => Get(t, n) = s[Len(s)])
\* Select("*") = all children of the root in document order
SelectAll == Select(t, "*") = Kids(t, 1)
\* attributes: at most one value per key
AttrFunctional == \A i \in 1..Len(t) : \A p, q \in t[i].at : p[1] = q[1] => p = q
\* what the last call promised
Post == h # <<>> => LET e == h[Len(h)] IN
   /\ (e.call.op \in {"addtree", "getoradd"} => e.ret = Get(t, e.call.k))
   /\ (e.call.op = "set" /\ ~e.exc => t[Get(t, e.call.k)].v = e.call.v)
   /\ (e.call.op = "del" /\ ~e.exc => LastKidNamed(t, Get(t, e.call.p), e.call.n) = 0)
   /\ (e.call.op = "add" /\ ~e.exc => t[e.ret].n = e.call.n /\ t[e.ret].v = e.call.v /\ SubEnd(t, Parent(t, e.ret)) = e.ret)
Leaf == (Emit /\ Len(h) = Depth) => PrintT(ToJson([h |-> h]))
=============================================================================
