---- MODULE MCXmlThorough ----
EXTENDS XmlLaw
Alphabet == {"x", " ", "&", "<", ">", "\"", "'", "\n", "\t", ";"}
RECURSIVE StrN(_)
StrN(n) == IF n = 0 THEN {""} ELSE {s \o ch : s \in StrN(n - 1), ch \in Alphabet}
MCVals == StrN(0) \cup StrN(1) \cup StrN(2) \cup {"&amp;", "&lt;", "a&b<c>d", "]]>", "<!--", "x\ny", "1 < 2 && 3 > 2", "&#38;", "<![CDATA[x]]>"}
MCInner == {"", " < "}
AttrAlphabet == {"x", " ", "&", "<", ">", "\"", "'"}
RECURSIVE AStrN(_)
AStrN(n) == IF n = 0 THEN {""} ELSE {s \o ch : s \in AStrN(n - 1), ch \in AttrAlphabet}
MCAttr == AStrN(0) \cup AStrN(1) \cup AStrN(2) \cup {"&quot;", "a\"b'c", "&amp;"}
====
