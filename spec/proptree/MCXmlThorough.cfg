SPECIFICATION Spec
CONSTANTS
  ValSet <- MCVals
  InnerSet <- MCInner
  AttrSet <- MCAttr
  Emit = TRUE
INVARIANTS TrimIdem TrimKeeps Vector
CHECK_DEADLOCK FALSE
