---- MODULE MCTreeSim ----
EXTENDS PropTree
====
