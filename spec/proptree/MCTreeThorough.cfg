SPECIFICATION Spec
CONSTANTS
  Names = {"a", "b"}
  Vals = {"1"}
  AddParents = {"", "a"}
  TreeKeys = {"a.b"}
  SetKeys = {"a.b"}
  Keys = {"a", "b", "a.a", "a.b", "b.a", "a.b.a"}
  Filters = {"*", "a", "a.*", "*.b", "?", "a*.b*", "*.*.*"}
  DelParents = {"", "a"}
  CopySrc = {"a"}
  CopyDst = {""}
  AttrNodes = {"a"}
  AttrKeys = {"k"}
  MaxNodes = 7
  Depth = 4
  Emit = TRUE
INVARIANTS WF LastWins SelectGet SelectAll AttrFunctional Post Leaf
CHECK_DEADLOCK FALSE
