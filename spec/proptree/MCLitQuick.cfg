SPECIFICATION Spec
CONSTANTS
  Alphabet <- MCAlphabet
  MaxLen = 3
  Emit = TRUE
INVARIANTS TrimIdem TrimInvariant IntIsFloat IntIsVec BitIsBoth TokensClean Vec3IsVec D3IsVec FloatTableOk Vector
CHECK_DEADLOCK FALSE
