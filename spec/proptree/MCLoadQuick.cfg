SPECIFICATION Spec
CONSTANTS
  MaxPieces = 2
  Emit = TRUE
INVARIANTS NoRawMarkup Vector
CHECK_DEADLOCK FALSE
