---- MODULE MCCsgThorough ----
EXTENDS CsgProp
====
