---- MODULE MCLitQuick ----
EXTENDS LitVectors
MCAlphabet == {"0", "1", "7", "-", "+", " ", ",", ".", "e", "x"}
====
