---- MODULE MCCsgQuick ----
EXTENDS CsgProp
====
