SPECIFICATION Spec
CONSTANTS
  Names = {"a", "b", "ab"}
  Vals = {"1", "2"}
  AddParents = {"", "a", "a.b", "b"}
  TreeKeys = {"a.b", "b", "b.a.ab", "ab"}
  SetKeys = {"a", "a.b", "b.a"}
  Keys = {"a", "b", "ab", "a.a", "a.b", "b.a", "a.b.a", "b.a.ab", "a.ab"}
  Filters = {"*", "a", "a.*", "*.b", "?", "a*.b*", "*.*.*", "a?", "*b", "?.?.*"}
  DelParents = {"", "a", "b"}
  CopySrc = {"a", "b", "a.b"}
  CopyDst = {"", "a", "b", "ab"}
  AttrNodes = {"a", "b", "a.b"}
  AttrKeys = {"k", "m"}
  MaxNodes = 14
  Depth = 8
  Emit = TRUE
INVARIANTS WF LastWins SelectGet SelectAll AttrFunctional Post Leaf
CHECK_DEADLOCK FALSE
