------------------------------- MODULE XmlLaw -------------------------------
(* The XML law of tools::Property:   Load(Print(t)) = Trim(t)
   "a property tree written as XML and loaded again is the same tree (names, order,
   attributes, trimmed values)".  Print is operator<< with the XML manipulator, Load
   is LoadFromXML - both are the real code; the spec supplies the trees and Trim.
   Trees: five shapes over names r/a/b; leaf values and attribute values range over
   ValSet / AttrSet, which contain the XML metacharacters & < > " ' and white space
   (attribute values without tab/newline: XML itself normalises those to blanks, and
   without carriage returns anywhere: XML turns them into newlines).  One initial
   state per shape, one successor per assignment of values.                        *)
EXTENDS FlatTree, TLC, Json

CONSTANTS ValSet, InnerSet, AttrSet, Emit
VARIABLES shape, t

Nd(d, n, v, at) == [d |-> d, n |-> n, v |-> v, at |-> at]
AttrChoices == {{}} \cup {{<<"k", x>>} : x \in AttrSet} \cup {{<<"k", x>>, <<"m", "1">>} : x \in AttrSet}
Trees(sh) ==
  CASE sh = 1 -> {<< Nd(0, "r", v, at) >> : v \in ValSet, at \in AttrChoices}
    [] sh = 2 -> {<< Nd(0, "r", iv, {}), Nd(1, "a", v, at) >> : iv \in InnerSet, v \in ValSet, at \in AttrChoices}
    [] sh = 3 -> {<< Nd(0, "r", iv, {}), Nd(1, "a", v1, {}), Nd(1, "b", v2, {}) >> : iv \in InnerSet, v1 \in ValSet, v2 \in ValSet}
    [] sh = 4 -> {<< Nd(0, "r", "", at), Nd(1, "a", iv, {}), Nd(2, "b", v, {}) >> : iv \in InnerSet, v \in ValSet, at \in AttrChoices}
    [] sh = 5 -> {<< Nd(0, "r", iv, {}), Nd(1, "a", v1, {}), Nd(1, "a", v2, {<<"k", "1">>}), Nd(1, "b", "", {}) >> : iv \in InnerSet, v1 \in ValSet, v2 \in ValSet}

Init == shape \in 1..5 /\ t = <<>>
Next == t = <<>> /\ t' \in Trees(shape) /\ UNCHANGED shape
Spec == Init /\ [][Next]_<<shape, t>>

TrimTree(tt) == [j \in 1..Len(tt) |-> [tt[j] EXCEPT !.v = Trim(@)]]
\* design level: Trim is a projection and keeps everything but outer white space
TrimIdem == t # <<>> => TrimTree(TrimTree(t)) = TrimTree(t)
TrimKeeps == t # <<>> => \A j \in 1..Len(t) : LET a == t[j].v  b == TrimTree(t)[j].v IN
                /\ \E pre, post \in 0..Len(a) : pre + Len(b) + post = Len(a) /\ (Len(b) > 0 => SubSeq(a, pre + 1, pre + Len(b)) = b)
                                                /\ \A i \in (1..pre) \cup ((Len(a) - post + 1)..Len(a)) : Ch(a, i) \in WS
                /\ (Len(b) > 0 => Ch(b, 1) \notin WS /\ Ch(b, Len(b)) \notin WS)
Out(tt) == [j \in 1..Len(tt) |-> <<tt[j].d, tt[j].n, tt[j].v, tt[j].at>>]
Vector == (Emit /\ t # <<>>) => PrintT(ToJson([t |-> Out(t), exp |-> Out(TrimTree(t))]))
=============================================================================
