---- MODULE MCXmlQuick ----
EXTENDS XmlLaw
MCVals == {"", "x", " ", "&", "<", ">", "\"", "'", "\n", "\t", "x y", " x ", "\nx\n", "&amp;", "&lt;", "a&b<c>d", "]]>", "<!--", "x\ny", "1 < 2 && 3 > 2"}
MCInner == {"", "v", "&"}
MCAttr == {"", "x", " ", "&", "<", ">", "\"", "'", " x ", "&quot;", "a\"b'c"}
====
