------------------------------ MODULE Literals ------------------------------
(* Character-level meaning of the literals that votca::tools::Property::as<T>
   and the option "choices" accept.  TLC treats strings as sequences of
   characters (Len, SubSeq and \o work on them), so a literal is an ordinary
   TLA+ string.

   Every classifier is three-valued:
       "valid"    the documentation/statement clearly promises acceptance (with a value)
       "invalid"  it clearly promises rejection
       "unspec"   neither is promised; the conformance check admits both outcomes
   (DESIGN.md section 7: only what is stated is asserted).                        *)
EXTENDS Integers, Sequences, FiniteSets

Ch(s, i) == SubSeq(s, i, i)
Rest(s, i) == IF i > Len(s) THEN "" ELSE SubSeq(s, i, Len(s))

MinOf(S) == CHOOSE x \in S : \A y \in S : x <= y
MaxOf(S) == CHOOSE x \in S : \A y \in S : x >= y
RECURSIVE SortedSeq(_)
SortedSeq(S) == IF S = {} THEN <<>> ELSE LET m == MinOf(S) IN <<m>> \o SortedSeq(S \ {m})

WS == {" ", "\t", "\n"}
Digits == {"0", "1", "2", "3", "4", "5", "6", "7", "8", "9"}
DigitVal(c) == CASE c = "0" -> 0 [] c = "1" -> 1 [] c = "2" -> 2 [] c = "3" -> 3 [] c = "4" -> 4
                 [] c = "5" -> 5 [] c = "6" -> 6 [] c = "7" -> 7 [] c = "8" -> 8 [] c = "9" -> 9

\* the string without leading and trailing white space
Trim(s) == LET idx == {i \in 1..Len(s) : Ch(s, i) \notin WS}
           IN IF idx = {} THEN "" ELSE SubSeq(s, MinOf(idx), MaxOf(idx))

\* maximal runs of non-separator characters, in order (empty words are dropped)
Tokens(s, seps) ==
  LET n == Len(s)
      starts == {i \in 1..n : Ch(s, i) \notin seps /\ (i = 1 \/ Ch(s, i - 1) \in seps)}
      EndOf(i) == MinOf({j \in i..n : j = n \/ Ch(s, j + 1) \in seps})
      ss == SortedSeq(starts)
  IN [k \in 1..Len(ss) |-> SubSeq(s, ss[k], EndOf(ss[k]))]

Contains(s, c) == \E i \in 1..Len(s) : Ch(s, i) = c
IndexOf(s, c) == MinOf({i \in 1..Len(s) : Ch(s, i) = c})

AllIn(s, set) == \A i \in 1..Len(s) : Ch(s, i) \in set
IsDigits(s) == Len(s) > 0 /\ AllIn(s, Digits)
RECURSIVE NatVal(_)
NatVal(s) == IF Len(s) = 0 THEN 0 ELSE 10 * NatVal(SubSeq(s, 1, Len(s) - 1)) + DigitVal(Ch(s, Len(s)))
AllZero(s) == AllIn(s, {"0"})

LowerCh(c) == CASE c = "T" -> "t" [] c = "R" -> "r" [] c = "U" -> "u" [] c = "E" -> "e" [] c = "F" -> "f"
                [] c = "A" -> "a" [] c = "L" -> "l" [] c = "S" -> "s" [] c = "N" -> "n" [] c = "I" -> "i"
                [] c = "Y" -> "y" [] c = "O" -> "o" [] c = "X" -> "x" [] OTHER -> c
RECURSIVE Lower(_)
Lower(s) == IF Len(s) = 0 THEN "" ELSE LowerCh(Ch(s, 1)) \o Lower(Rest(s, 2))

-----------------------------------------------------------------------------
(* as<bool>: "true"/"false" in any letter case, "1", "0"; everything else throws
   (tokenizer.h: the restrictive bool conversion).  Property::as<T> trims first.  *)
BoolClass(raw) == LET s == Trim(raw) IN
  IF Lower(s) \in {"true", "false"} \/ s \in {"1", "0"} THEN "valid" ELSE "invalid"
BoolVal(raw) == LET s == Trim(raw) IN Lower(s) = "true" \/ s = "1"

(* as<Index>: an optional minus sign and decimal digits.  A leading plus sign and
   more than 9 digits (outside TLC's integers, overflow behaviour) are left open.  *)
IntClass(raw) == LET s == Trim(raw) IN
  IF IsDigits(s) THEN (IF Len(s) <= 9 THEN "valid" ELSE "unspec")
  ELSE IF Len(s) > 1 /\ Ch(s, 1) = "-" /\ IsDigits(Rest(s, 2)) THEN (IF Len(s) <= 10 THEN "valid" ELSE "unspec")
  ELSE IF Len(s) > 1 /\ Ch(s, 1) = "+" /\ IsDigits(Rest(s, 2)) THEN "unspec"
  ELSE "invalid"
IntVal(raw) == LET s == Trim(raw) IN
  IF Ch(s, 1) = "-" THEN 0 - NatVal(Rest(s, 2)) ELSE NatVal(s)
\* sign of a valid integer literal: -1, 0, 1
IntSign(raw) == LET s == Trim(raw) IN
  IF Ch(s, 1) = "-" THEN (IF AllZero(Rest(s, 2)) THEN 0 ELSE -1) ELSE (IF AllZero(s) THEN 0 ELSE 1)

(* as<double>: clearly valid is  [-] D+ [ . D+ ] [ (e|E) [+|-] D{1,2} ].
   Left open: leading '+', "5.", ".5", exponents of three or more digits (range),
   nan/inf spellings and hexadecimal floats.  Everything else is clearly invalid.  *)
SplitExp(s) == LET es == {i \in 1..Len(s) : Ch(s, i) \in {"e", "E"}} IN
  IF es = {} THEN <<s, "", FALSE>> ELSE LET i == MinOf(es) IN <<SubSeq(s, 1, i - 1), Rest(s, i + 1), TRUE>>
MantStrict(m) == LET ds == {i \in 1..Len(m) : Ch(m, i) = "."} IN
  IF ds = {} THEN IsDigits(m)
  ELSE Cardinality(ds) = 1 /\ LET i == MinOf(ds) IN IsDigits(SubSeq(m, 1, i - 1)) /\ IsDigits(Rest(m, i + 1))
MantLoose(m) == LET ds == {i \in 1..Len(m) : Ch(m, i) = "."} IN
  /\ Cardinality(ds) <= 1 /\ AllIn(m, Digits \cup {"."}) /\ \E i \in 1..Len(m) : Ch(m, i) \in Digits
ExpStrict(e) == LET b == IF Len(e) > 0 /\ Ch(e, 1) \in {"+", "-"} THEN Rest(e, 2) ELSE e IN IsDigits(b) /\ Len(b) <= 2
ExpLoose(e) == LET b == IF Len(e) > 0 /\ Ch(e, 1) \in {"+", "-"} THEN Rest(e, 2) ELSE e IN IsDigits(b)
Unsigned(s) == IF Len(s) > 0 /\ Ch(s, 1) \in {"+", "-"} THEN Rest(s, 2) ELSE s
FloatClass(raw) == LET s == Trim(raw)  u == Unsigned(s)  p == SplitExp(u)  l == Lower(u) IN
  IF /\ (Len(s) = 0 \/ Ch(s, 1) # "+") /\ MantStrict(p[1]) /\ (p[3] => ExpStrict(p[2])) THEN "valid"
  ELSE IF MantLoose(p[1]) /\ (p[3] => ExpLoose(p[2])) THEN "unspec"
  ELSE IF l \in {"nan", "inf", "infinity"} \/ (Len(l) >= 2 /\ SubSeq(l, 1, 2) = "0x") \/ (Len(l) >= 3 /\ SubSeq(l, 1, 3) = "nan") THEN "unspec"
  ELSE "invalid"
\* sign of the mantissa of a clearly valid float literal: -1, 0, 1
FloatSign(raw) == LET s == Trim(raw)  m == SplitExp(Unsigned(s))[1] IN
  IF AllIn(m, {"0", "."}) THEN 0 ELSE IF Ch(s, 1) = "-" THEN -1 ELSE 1

(* vectors: words separated by blanks, tabs, newlines or commas, every word an
   element literal.  Left open: the empty string and comma runs / leading or
   trailing commas (empty words).                                                *)
VecSeps == {" ", ",", "\n", "\t"}
CommaOdd(raw) == LET s == Trim(raw)  n == Len(s) IN
  \/ n = 0
  \/ Ch(s, 1) = "," \/ Ch(s, n) = ","
  \/ \E i \in 1..n : Ch(s, i) = "," /\ \E j \in (i + 1)..n : Ch(s, j) = "," /\ \A k \in (i + 1)..(j - 1) : Ch(s, k) \in WS
IntVecClass(raw) == LET w == Tokens(Trim(raw), VecSeps)  cl == {IntClass(w[k]) : k \in 1..Len(w)} IN
  IF "invalid" \in cl THEN "invalid" ELSE IF CommaOdd(raw) \/ "unspec" \in cl THEN "unspec" ELSE "valid"
IntVecVal(raw) == LET w == Tokens(Trim(raw), VecSeps) IN [k \in 1..Len(w) |-> IntVal(w[k])]
\* fixed-size 3-vector: additionally exactly three words
IntVec3Class(raw) == LET w == Tokens(Trim(raw), VecSeps)  c == IntVecClass(raw) IN
  IF c = "invalid" THEN "invalid"
  ELSE IF Len(w) # 3 THEN (IF CommaOdd(raw) /\ Len(w) = 0 THEN "invalid" ELSE "invalid")
  ELSE c
\* as<std::vector<std::string>>: the words themselves; never an error
StrVecVal(raw) == Tokens(Trim(raw), VecSeps)
FloatVecClass(raw) == LET w == Tokens(Trim(raw), VecSeps)  cl == {FloatClass(w[k]) : k \in 1..Len(w)} IN
  IF "invalid" \in cl THEN "invalid" ELSE IF CommaOdd(raw) \/ "unspec" \in cl THEN "unspec" ELSE "valid"
\* Eigen::Vector3d: exactly three float words
FloatVec3Class(raw) == LET w == Tokens(Trim(raw), VecSeps)  c == FloatVecClass(raw) IN
  IF c = "invalid" \/ Len(w) # 3 THEN "invalid" ELSE c
=============================================================================
