---- MODULE MCLoadThorough ----
EXTENDS XmlLoad
====
