SPECIFICATION Spec
CONSTANTS
  MaxPieces = 3
  Emit = TRUE
INVARIANTS NoRawMarkup Vector
CHECK_DEADLOCK FALSE
