------------------------------- MODULE XmlLoad -------------------------------
(* Property::LoadFromXML on documents that operator<< never writes: comments,
   CDATA sections, predefined entities, character references, an internal entity
   declared in a DOCTYPE, processing instructions, single-quoted attributes, with and
   without XML declaration, with and without final newline, trailing blank lines and
   comments, Windows line ends (getline.h: "Removes Windows end-of-line character").
   LoadFromXML feeds the file to expat line by line, so constructs that span lines
   (CDATA, comments) and the last line are the interesting places.

   A document is  prolog <r ATTR> piece* </r> trailer ; every piece has its XML text
   and its meaning: a contribution to r's character data, or a child element.  The
   expected tree is the concatenation of the meanings (XML 1.0 semantics; values are
   compared exactly, not trimmed).                                                  *)
EXTENDS FlatTree, TLC, Json

CONSTANTS MaxPieces, Emit
VARIABLES env, doc          \* env: [pro, tr, at, crlf]; doc: sequence of piece numbers

T(x, m) == [x |-> x, m |-> m, el |-> FALSE, n |-> "", at |-> {}]
E(x, n, m, at) == [x |-> x, m |-> m, el |-> TRUE, n |-> n, at |-> at]
Pieces == <<
  T("x", "x"), T(" ", " "), T("\ny\n", "\ny\n"),
  T("&amp;", "&"), T("&lt;", "<"), T("&gt;", ">"), T("&quot;", "\""), T("&apos;", "'"),
  T("&#65;", "A"), T("&#x41;", "A"), T("&#10;", "\n"), T("&amp;amp;", "&amp;"),
  T("<![CDATA[<&>]]>", "<&>"), T("<![CDATA[]]>", ""), T("<![CDATA[a\nb]]>", "a\nb"), T("<![CDATA[&amp;]]>", "&amp;"),
  T("<!-- c -->", ""), T("<!--\n<b>x</b> & \n-->", ""), T("<?pi x?>", ""),
  T("&e;", "val"),
  E("<a>q</a>", "a", "q", {}), E("<a/>", "a", "", {}), E("<a k='s' m = \"d\"/>", "a", "", {<<"k", "s">>, <<"m", "d">>}),
  E("<b k=\"a&amp;b&#9;c\"><!-- in -->z<![CDATA[>]]></b>", "b", "z>", {<<"k", "a&b\tc">>}),
  E("<a\n k=\"v w\"\n>\n</a>", "a", "\n", {<<"k", "v w">>}) >>

Prologs == << "", "<?xml version=\"1.0\"?>\n", "<?xml version=\"1.0\" encoding=\"UTF-8\"?>\n<!-- head -->\n\n" >>
Doctype == "<!DOCTYPE r [<!ENTITY e \"val\">]>\n"
Trailers == << "", "\n", "\n\n\n", "\n<!-- end -->\n", "  " >>
RootAttrs == << [x |-> "", at |-> {}], [x |-> " k=\"1\"", at |-> {<<"k", "1">>}], [x |-> " k='a\"b' m=\"c'd\"", at |-> {<<"k", "a\"b">>, <<"m", "c'd">>}] >>

Envs == {[pro |-> 1, tr |-> 1, at |-> 1, crlf |-> FALSE], [pro |-> 2, tr |-> 2, at |-> 2, crlf |-> FALSE],
         [pro |-> 3, tr |-> 4, at |-> 3, crlf |-> FALSE], [pro |-> 2, tr |-> 3, at |-> 1, crlf |-> TRUE],
         [pro |-> 1, tr |-> 5, at |-> 2, crlf |-> TRUE], [pro |-> 3, tr |-> 1, at |-> 1, crlf |-> TRUE]}
Docs == UNION {[1..k -> 1..Len(Pieces)] : k \in 0..MaxPieces}

Init == env \in Envs /\ doc = << 0 >>
Next == doc = << 0 >> /\ doc' \in Docs /\ UNCHANGED env
Spec == Init /\ [][Next]_<<env, doc>>
Live == doc # << 0 >>

HasSub(s, sub) == \E i \in 1..(Len(s) - Len(sub) + 1) : SubSeq(s, i, i + Len(sub) - 1) = sub
RECURSIVE Cat(_)
Cat(ss) == IF ss = <<>> THEN "" ELSE Head(ss) \o Cat(Tail(ss))
UsesEntity == \E i \in 1..Len(doc) : Pieces[doc[i]].x = "&e;"
Text == Prologs[env.pro] \o (IF UsesEntity THEN Doctype ELSE "")
        \o "<r" \o RootAttrs[env.at].x \o ">" \o Cat([i \in 1..Len(doc) |-> Pieces[doc[i]].x]) \o "</r>" \o Trailers[env.tr]
Nd(d, n, v, at) == <<d, n, v, at>>
Expected ==
  << Nd(0, "r", Cat([i \in 1..Len(doc) |-> IF Pieces[doc[i]].el THEN "" ELSE Pieces[doc[i]].m]), RootAttrs[env.at].at) >>
  \o Flatten([i \in 1..Len(doc) |-> IF Pieces[doc[i]].el THEN << Nd(1, Pieces[doc[i]].n, Pieces[doc[i]].m, Pieces[doc[i]].at) >> ELSE <<>>])

\* design level: markup characters reach a value only through an entity, a reference or CDATA
NoRawMarkup == Live => \A i \in 1..Len(doc) : LET p == Pieces[doc[i]] IN
   (~p.el /\ (Contains(p.m, "<") \/ Contains(p.m, "&"))) => (Contains(p.x, "&") \/ HasSub(p.x, "CDATA"))
Vector == (Emit /\ Live) => PrintT(ToJson([xml |-> Text, crlf |-> env.crlf, exp |-> Expected,
                                           kinds |-> {IF Pieces[doc[i]].el THEN "element" ELSE
                                                      IF HasSub(Pieces[doc[i]].x, "CDATA") THEN "cdata" ELSE
                                                      IF Len(Pieces[doc[i]].x) >= 4 /\ SubSeq(Pieces[doc[i]].x, 1, 4) = "<!--" THEN "comment" ELSE
                                                      IF Contains(Pieces[doc[i]].x, "&") THEN "entity" ELSE "text" : i \in 1..Len(doc)}]))
=============================================================================
