SPECIFICATION Spec
CONSTANTS
  MaxDepth = 2
  Emit = TRUE
INVARIANTS Vector SynthOut
CHECK_DEADLOCK FALSE
