SPECIFICATION Spec
CONSTANTS
  NSet = {0, 1, 6, 7, 8, 1000, 100000, 131072}
  KSet = {1, 7}
  Emit = TRUE
INVARIANTS Partition Vector
CHECK_DEADLOCK FALSE
