----------------------------- MODULE LitVectors -----------------------------
(* Mode L vectors for typed access: every string of length 1..MaxLen over Alphabet
   plus a fixed table (letter-case variants of true/false, float forms, vectors) is
   one state; TLC classifies it with Literals and checks that the classifiers
   are mutually consistent; each state is exported as one conformance vector.    *)
EXTENDS Literals, TLC, Json

CONSTANTS Alphabet, MaxLen, Emit
VARIABLE s

RECURSIVE StrN(_)
StrN(n) == IF n = 0 THEN {""} ELSE {x \o c : x \in StrN(n - 1), c \in Alphabet}
AllStr == UNION {StrN(k) : k \in 0..MaxLen}

BoolTable == {"true", "True", "TRUE", "tRuE", "false", "False", "FALSE", "fAlse", " true", "true\n", "\tfalse ",
              "tru", "truee", "t", "f", "T", "yes", "no", "on", "off", "y", "n", "2", "01", "00", "10", "-1", "",
              "true false", "1 0", "true1", "0.0", "1.0"}
\* float table: <<literal, numerator, denominator>> for the clearly valid ones
FloatValid == {<<"1", 1, 1>>, <<"-1", -1, 1>>, <<"0", 0, 1>>, <<"1.5", 3, 2>>, <<"-0.25", -1, 4>>, <<"10.75", 43, 4>>,
               <<"1e3", 1000, 1>>, <<"2.5e-3", 1, 400>>, <<"5e-5", 1, 20000>>, <<"1E2", 100, 1>>, <<"-3.0e+1", -30, 1>>,
               <<" 2.5 ", 5, 2>>, <<"007", 7, 1>>, <<"0.5", 1, 2>>, <<"1e-9", 1, 1000000000>>, <<"10000.0", 10000, 1>>}
FloatOther == {"", "abc", "1.5x", "1,5", "1 5", "1e", "e5", "1.2.3", "--1", "1-", "1e5.5", "1d3", ".", "-", "1e+", "x1",
               "+1.5", "5.", ".5", "nan", "inf", "-inf", "NaN", "0x10", "1e400", "1e-400", "true", "1f", "1.0f"}
VecTable == {"1 2 3", "1,2,3", "1, 2, 3", "-1 0 7", "1\n2\t3", " 1  2   3 ", "1 2", "1 2 3 4", "1 2 x", "1 2 3.5", "1,,2,3", "1 2 3,", "+1 2 3",
             "1.5 2 3e1", "0.5,0.25", "1e", "7", "a b,c", "1.5 -2 0.25", "1.5 2", "1 2 3 x", "x,y\tz\nw", "-1e-3 2.5e+2 7",
             \* every position of a multi-word literal is checked: the bad word first / in the middle / last
             "x 2 3", "1 x 3", "1 2 x", "x,2,3", "1,x,3", "1.5 x 3", "x 2.5 3", "1e 2 3", "1 2e 3", "1 2 3e", "1 2.5 3", "2.5 1 3", "1 2 3 x 5", "x 1"}
Table == VecTable \cup BoolTable \cup {p[1] : p \in FloatValid} \cup FloatOther

\* two steps (first character, then the rest) so that TLC's workers share the strings
VARIABLE done
Init == done = FALSE /\ s \in Alphabet \cup {""}
Next == /\ ~done /\ done' = TRUE
        /\ s' \in IF s = "" THEN Table ELSE {s \o x : x \in UNION {StrN(k) : k \in 0..(MaxLen - 1)}}
Spec == Init /\ [][Next]_<<s, done>>

\* ---- design-level consistency of the classifiers -----------------------------
TrimIdem == Trim(Trim(s)) = Trim(s)
TrimInvariant == /\ BoolClass(Trim(s)) = BoolClass(s) /\ IntClass(Trim(s)) = IntClass(s)
                 /\ FloatClass(Trim(s)) = FloatClass(s)
IntIsFloat == IntClass(s) = "valid" => FloatClass(s) = "valid"
IntIsVec == IntClass(s) = "valid" => IntVecClass(s) = "valid" /\ IntVecVal(s) = <<IntVal(s)>>
BitIsBoth == Trim(s) \in {"0", "1"} => BoolClass(s) = "valid" /\ IntClass(s) = "valid" /\ (BoolVal(s) <=> IntVal(s) = 1)
TokensClean == LET w == Tokens(s, VecSeps) IN \A k \in 1..Len(w) : Len(w[k]) > 0 /\ \A i \in 1..Len(w[k]) : Ch(w[k], i) \notin VecSeps
D3IsVec == /\ (FloatVec3Class(s) = "valid" => FloatVecClass(s) = "valid" /\ Len(StrVecVal(s)) = 3)
           /\ (IntVec3Class(s) = "valid" => FloatVec3Class(s) = "valid")
Vec3IsVec == IntVec3Class(s) = "valid" => IntVecClass(s) = "valid" /\ Len(IntVecVal(s)) = 3
FloatTableOk == /\ \A p \in FloatValid : FloatClass(p[1]) = "valid"
                /\ \A x \in {"", "abc", "1.5x", "1,5", "1 5", "1e", "e5", "1.2.3", "--1", "1-", "1e5.5", "1d3", ".", "-", "1e+", "x1", "true", "1f", "1.0f"} : FloatClass(x) = "invalid"
                /\ \A x \in {"+1.5", "5.", ".5", "nan", "inf", "-inf", "NaN", "0x10", "1e400", "1e-400"} : FloatClass(x) = "unspec"

FloatRat == IF \E p \in FloatValid : p[1] = s THEN LET p == CHOOSE q \in FloatValid : q[1] = s IN <<p[2], p[3]>> ELSE <<0, 0>>

Vector == (Emit /\ done) => PrintT(ToJson(
   [s |-> s,
    b |-> BoolClass(s), bv |-> IF BoolClass(s) = "valid" THEN BoolVal(s) ELSE FALSE,
    i |-> IntClass(s), iv |-> IF IntClass(s) = "valid" THEN IntVal(s) ELSE 0,
    v |-> IntVecClass(s), vv |-> IF IntVecClass(s) = "valid" THEN IntVecVal(s) ELSE <<>>,
    v3 |-> IntVec3Class(s),
    f |-> FloatClass(s), fr |-> FloatRat,
    fv |-> FloatVecClass(s),
    d3 |-> FloatVec3Class(s),
    \* the words of as<vector<string>>; svc: compared (no empty words in play)
    sv |-> StrVecVal(s), svc |-> ~CommaOdd(s)]))
=============================================================================
