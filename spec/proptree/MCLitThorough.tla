---- MODULE MCLitThorough ----
EXTENDS LitVectors
MCAlphabet == {"0", "1", "7", "-", "+", " ", ",", ".", "e", "x", "\n"}
====
