---- MODULE MCTreeThorough ----
EXTENDS PropTree
====
