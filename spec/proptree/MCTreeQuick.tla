---- MODULE MCTreeQuick ----
EXTENDS PropTree
====
