------------------------------- MODULE CsgProp -------------------------------
(* The csg_property executable ("Helper program called by inverse scripts to parse
   xml file"), the way csg reads its options: csg_defaults.xml and the user's file are
   queried with
        csg_property --file F --path P [--filter field=pattern] --print X [--short] [--with-path]
   Meaning, from its option help: for every node selected by P (wildcards allowed) whose
   child `field` matches the pattern, print X's selection below it ("." = the node
   itself) as  [path.]name = value  or, with --short, the value only.
   Input trees: csg/share/xml/csg_defaults.xml.in read by python's ElementTree (values
   raw), and a small synthetic interaction list for the filter.                       *)
EXTENDS TreeQuery, TLC, Json, IOUtils

CONSTANTS MaxDepth, Emit
VARIABLES src, q

Raw == ndJsonDeserialize(IOEnv.C11_CSGDEF)[1].t
Nd(d, n, v) == [d |-> d, n |-> n, v |-> v]
Defaults == << Nd(0, "", "") >> \o [j \in 1..Len(Raw) |-> Nd(Raw[j].d + 1, Raw[j].n, Raw[j].v)]
Synth == << Nd(0, "", ""), Nd(1, "cg", "\n"),
            Nd(2, "non-bonded", ""), Nd(3, "name", "A-A"), Nd(3, "min", "0.1"), Nd(3, "inverse", ""), Nd(4, "target", "A-A.dist.tgt"),
            Nd(2, "non-bonded", ""), Nd(3, "name", "A-B"), Nd(3, "min", "0.2"), Nd(3, "inverse", ""), Nd(4, "target", "A-B.dist.tgt"),
            Nd(2, "non-bonded", ""), Nd(3, "name", "B-B"), Nd(3, "min", " 0.3 "),
            Nd(2, "bonded", ""), Nd(3, "name", "bond"), Nd(3, "min", "0") >>
Tree(s) == IF s = "defaults" THEN Defaults ELSE Synth

FullPath(t, i) == IF PathOf(t, i) = "" THEN t[i].n ELSE PathOf(t, i) \o "." \o t[i].n
RECURSIVE StarLast(_)
StarLast(names) == IF Len(names) = 1 THEN <<"*">> ELSE <<names[1]>> \o StarLast(Tail(names))
Modes == {"plain", "short", "with-path"}
DefQueries == LET t == Defaults IN
  UNION {{[path |-> pp, filter |-> "", print |-> pr, mode |-> m] :
             pp \in {FullPath(t, i), Dotted(StarLast(Tail(PathNames(t, i))))}, pr \in {".", "*", t[i].n}, m \in Modes}
         : i \in {j \in 2..Len(t) : t[j].d <= MaxDepth /\ ~IsLeaf(t, j)}}
SynQueries == {[path |-> pp, filter |-> f, print |-> pr, mode |-> m] :
                 pp \in {"cg.non-bonded", "cg.*", "cg.nothing", "cg.non-bonded.inverse"},
                 f \in {"", "name=A-A", "name=A*", "name=?-B", "min=0*"},
                 pr \in {".", "min", "inverse.target", "*"}, m \in Modes}
Init == src \in {"defaults", "synth"} /\ q = [path |-> "", filter |-> "", print |-> "", mode |-> "init"]
Next == q.mode = "init" /\ q' \in (IF src = "defaults" THEN DefQueries ELSE SynQueries) /\ UNCHANGED src
Spec == Init /\ [][Next]_<<src, q>>
Live == q.mode # "init"

\* result: [fail, out]; fail: the filter field does not exist below a selected node (the program gives up)
\* dot: whether --with-path writes the separating "." also for a node whose path is empty (the program
\* does; the help text does not say) - both outputs are admitted
Answer(t, qq, dot) ==
  LET sel == Select(t, qq.path)
      ft == Tokens(qq.filter, {"="})
      Keep(i) == qq.filter = "" \/ WM(ft[2], t[GetAt(t, i, ft[1])].v)
      Missing(i) == qq.filter # "" /\ GetAt(t, i, ft[1]) = 0
      Line(j) == (IF qq.mode = "with-path" /\ (dot \/ PathOf(t, j) # "") THEN PathOf(t, j) \o "." ELSE "")
                 \o (IF qq.mode # "short" THEN t[j].n \o " = " ELSE "") \o t[j].v \o "\n"
      Printed(i) == IF qq.print = "." THEN <<i>> ELSE SelectAt(t, i, qq.print)
      RECURSIVE Run(_)
      Run(k) == IF k > Len(sel) THEN [fail |-> FALSE, out |-> ""]
                ELSE IF Missing(sel[k]) THEN [fail |-> TRUE, out |-> ""]
                ELSE LET rest == Run(k + 1)
                         mine == IF Keep(sel[k]) THEN LET ps == Printed(sel[k]) IN
                                    LET RECURSIVE Cat(_)
                                        Cat(x) == IF x > Len(ps) THEN "" ELSE Line(ps[x]) \o Cat(x + 1)
                                    IN Cat(1)
                                 ELSE ""
                     IN [fail |-> rest.fail, out |-> mine \o rest.out]
  IN Run(1)

\* design level: --short output is the plain output without the "name = " prefixes (same number of lines)
Vector == (Emit /\ Live) => PrintT(ToJson([src |-> src, q |-> q, exp |-> [fail |-> Answer(Tree(src), q, TRUE).fail, out |-> Answer(Tree(src), q, TRUE).out,
                                                   alt |-> Answer(Tree(src), q, FALSE).out],
                                           hits |-> Len(Select(Tree(src), q.path))]))
SynthOut == (Emit /\ ~Live /\ src = "synth") => PrintT(ToJson([synth |-> [j \in 1..(Len(Synth) - 1) |-> <<Synth[j + 1].d - 1, Synth[j + 1].n, Synth[j + 1].v>>]]))
=============================================================================
