SPECIFICATION Spec
CONSTANTS
  Names = {"a", "b"}
  Vals = {"1"}
  AddParents = {"", "a"}
  TreeKeys = {"a.b.a"}
  SetKeys = {"a", "a.b"}
  Keys = {"a", "b", "a.a", "a.b", "b.a", "a.b.a"}
  Filters = {"*", "a", "a.*", "*.b", "a*.b*"}
  DelParents = {"", "a"}
  CopySrc = {"a"}
  CopyDst = {"", "b"}
  AttrNodes = {"a"}
  AttrKeys = {"k"}
  MaxNodes = 9
  Depth = 3
  Emit = TRUE
INVARIANTS WF LastWins SelectGet SelectAll AttrFunctional Post Leaf
CHECK_DEADLOCK FALSE
