-------------------------------- MODULE Bulk --------------------------------
(* Edge of the domain: one node with N children named c<i mod K> and value i
   (N up to 10^5 and 2^17, also 0, 1, K-1, K).  The observations have closed forms:
   size, per name the value of get (the LAST child of that name) and the number of
   Select hits, Select("top.*"), the same tree after an XML round trip, and size / last
   values after deleteChildren(name = c0).                                          *)
EXTENDS Integers, Sequences, TLC, Json

CONSTANTS NSet, KSet, Emit
VARIABLES n, k

Init == n \in NSet /\ k \in KSet
Next == UNCHANGED <<n, k>>
Spec == Init /\ [][Next]_<<n, k>>

Count(q) == IF q > n - 1 THEN 0 ELSE ((n - 1 - q) \div k) + 1
Last(q) == IF q > n - 1 THEN -1 ELSE (n - 1) - ((n - 1 - q) % k)        \* -1: no such child
\* design level: the names partition the children; the last index of name q is < n, = q mod k
Partition == LET S(q) == Count(q) IN
   /\ (k = 1 => S(0) = n)
   /\ \A q \in 0..(k - 1) : S(q) >= 0 /\ (Last(q) # -1 => Last(q) < n /\ Last(q) % k = q /\ Last(q) + k >= n)
   /\ (LET RECURSIVE Sum(_)
           Sum(q) == IF q < 0 THEN 0 ELSE S(q) + Sum(q - 1)
       IN Sum(k - 1) = n)
Vector == Emit => PrintT(ToJson([n |-> n, k |-> k, size |-> n,
                                 count |-> [q \in 1..k |-> Count(q - 1)],
                                 last |-> [q \in 1..k |-> Last(q - 1)],
                                 after_del |-> n - Count(0),
                                 last_after_del |-> [q \in 1..(k - 1) |-> Last(q)]]))
=============================================================================
