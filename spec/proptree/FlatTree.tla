------------------------------ MODULE FlatTree ------------------------------
(* Ordered, labelled trees as flat pre-order sequences of node records.  Every
   node record has at least the fields d (depth, root = 0) and n (name); the other
   fields (v value, a attributes, ...) are carried along unchanged.  No recursion
   over tree-shaped values is needed and the form maps 1:1 to JSON.               *)
EXTENDS Literals

WellFormed(t) == /\ Len(t) >= 1 /\ t[1].d = 0
                 /\ \A i \in 2..Len(t) : t[i].d >= 1 /\ t[i].d <= t[i - 1].d + 1

\* index of the last node of the subtree rooted at i
SubEnd(t, i) == LET later == {j \in (i + 1)..Len(t) : t[j].d <= t[i].d}
                IN IF later = {} THEN Len(t) ELSE MinOf(later) - 1
Sub(t, i) == SubSeq(t, i, SubEnd(t, i))
\* children of i in document order
Kids(t, i) == SortedSeq({j \in (i + 1)..SubEnd(t, i) : t[j].d = t[i].d + 1})
KidsNamed(t, i, name) == SortedSeq({j \in (i + 1)..SubEnd(t, i) : t[j].d = t[i].d + 1 /\ t[j].n = name})
\* "if more than one property with this name exists, the last added one"; 0 if none
LastKidNamed(t, i, name) == LET s == {j \in (i + 1)..SubEnd(t, i) : t[j].d = t[i].d + 1 /\ t[j].n = name}
                            IN IF s = {} THEN 0 ELSE MaxOf(s)
IsLeaf(t, i) == i = Len(t) \/ t[i + 1].d <= t[i].d
Parent(t, i) == IF t[i].d = 0 THEN 0 ELSE MaxOf({j \in 1..(i - 1) : t[j].d = t[i].d - 1})
InSub(t, i, j) == i <= j /\ j <= SubEnd(t, i)          \* j lies in the subtree of i

Shift(s, k) == [j \in 1..Len(s) |-> [s[j] EXCEPT !.d = @ + k]]
\* s re-rooted so that its first node gets depth dd
Rebase(s, dd) == Shift(s, dd - s[1].d)
InsertAfter(t, pos, s) == SubSeq(t, 1, pos) \o s \o SubSeq(t, pos + 1, Len(t))
\* append s (a forest whose roots have relative depth 0) as last children of node i
AppendKids(t, i, s) == InsertAfter(t, SubEnd(t, i), Shift(s, t[i].d + 1))
RemoveSub(t, i) == SubSeq(t, 1, i - 1) \o SubSeq(t, SubEnd(t, i) + 1, Len(t))

RECURSIVE Flatten(_)
Flatten(ss) == IF ss = <<>> THEN <<>> ELSE Head(ss) \o Flatten(Tail(ss))

\* names on the way from the root to node i
RECURSIVE PathNames(_, _)
PathNames(t, i) == IF t[i].d = 0 THEN <<t[i].n>> ELSE Append(PathNames(t, Parent(t, i)), t[i].n)
=============================================================================
