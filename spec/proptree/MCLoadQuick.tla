---- MODULE MCLoadQuick ----
EXTENDS XmlLoad
====
