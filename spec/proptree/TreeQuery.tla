------------------------------ MODULE TreeQuery ------------------------------
(* Read-only queries of tools::Property on a flat tree whose first node is the
   anonymous root: get (last child of a name wins), Select with wildcards, path().
   Shared by PropTree (history spec) and CsgProp (csg_property executable).          *)
EXTENDS FlatTree

\* ---- lookup ------------------------------------------------------------------
RECURSIVE Walk(_, _, _)
Walk(tt, i, names) == IF names = <<>> THEN i
                      ELSE LET k == LastKidNamed(tt, i, Head(names)) IN IF k = 0 THEN 0 ELSE Walk(tt, k, Tail(names))
Get(tt, key) == Walk(tt, 1, Tokens(key, {"."}))             \* 0: "property not found"

\* wildcard match, * any run (also empty), ? one character
RECURSIVE WM(_, _)
WM(pat, s) == IF pat = "" THEN s = ""
              ELSE IF Ch(pat, 1) = "*" THEN WM(Rest(pat, 2), s) \/ (s # "" /\ WM(pat, Rest(s, 2)))
              ELSE s # "" /\ (Ch(pat, 1) = "?" \/ Ch(pat, 1) = Ch(s, 1)) /\ WM(Rest(pat, 2), Rest(s, 2))
RECURSIVE SelStep(_, _, _)
SelStep(tt, sel, pats) ==
  IF pats = <<>> THEN sel
  ELSE SelStep(tt, Flatten([x \in 1..Len(sel) |-> LET ks == Kids(tt, sel[x]) IN
                               SelectSeq(ks, LAMBDA j : WM(Head(pats), tt[j].n))]), Tail(pats))
\* Select relative to node i (the object the call is made on)
SelectAt(tt, i, filter) == LET pats == Tokens(filter, {"."}) IN IF pats = <<>> THEN <<>> ELSE SelStep(tt, <<i>>, pats)
Select(tt, filter) == SelectAt(tt, 1, filter)
GetAt(tt, i, key) == Walk(tt, i, Tokens(key, {"."}))

\* path(): "full path of property (including parents)" - the dotted names of the proper ancestors;
\* the anonymous root contributes nothing (unit test: a child of one.two has path "one.two")
RECURSIVE Dotted(_)
Dotted(names) == IF names = <<>> THEN "" ELSE IF Len(names) = 1 THEN names[1] ELSE names[1] \o "." \o Dotted(Tail(names))
PathOf(tt, j) == IF tt[j].d <= 1 THEN "" ELSE Dotted(Tail(PathNames(tt, Parent(tt, j))))
=============================================================================
