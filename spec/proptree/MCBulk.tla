---- MODULE MCBulk ----
EXTENDS Bulk
====
