SPECIFICATION Spec
CONSTANTS
  MaxDepth = 4
  Emit = TRUE
INVARIANTS Vector SynthOut
CHECK_DEADLOCK FALSE
