------------------------------- MODULE PotFn -------------------------------
(* C07, potential functions of csg_reupdate (csg/src/libcsg/potentialfunctions).

   LJ 12-6 and LJ 12-6 + Gaussian.  The potential is a POLYNOMIAL in the symbols
        c12, c6, A, B, d = r - r0, u12 = r^-12, u6 = r^-6, E = exp(-B d^2)
   represented as a sequence of terms [co, e = powers of (c12, c6, A, B, d), u in {0,6,12}, g in {0,1}].
   `DPoly` differentiates such a polynomial with respect to parameter i (0..4 = c12, c6, A, B, r0,
   the order of lam_) by the rules of calculus (power rule, product rule, chain rule with
   dd/dr0 = -1, dE/dB = -d^2 E, dE/dr0 = 2 B d E).  This is the SPECIFICATION of CalculateDF /
   CalculateD2F ("the derivative of CalculateF").  `AlgoDF.. / AlgoD2F..` transcribe the closed
   forms written in the code.  TLC checks, symbolically (normal forms, i.e. for ALL parameter
   vectors and r at once):  D_i F = AlgoDF(i),  D_j D_i F = AlgoD2F(i,j),  D_i D_j F = D_j D_i F
   (symmetry), AlgoD2F symmetric.
   For the conformance vectors the polynomials are evaluated exactly on the log-lattice
        r = P/2, r0 = j0/2, B = m ln2 (4 | m)  =>  E = 2^-(m j^2 / 4), j = P - j0,
   as sums of terms  n/16 * ln2^l * 2^-e * (2/P)^u  (ln2 is transcendental: two such sums with
   equal coefficients group by group are equal).

   Cubic B-splines (CBSPL).  Knots at k dr, dr = cut/NI; sub-lattice r = X dr / M.  `NB` is the
   Cox-de Boor recursion (the definition of the uniform B-spline basis) with integer numerators
   over p! M^p; `AlgoBasis` transcribes the matrix M_ of the code.  CalculateF is linear in the
   coefficients, so its exact parameter derivative is F(lam + e_k) - F(lam).                    *)
EXTENDS Integers, Sequences, FiniteSets, CArith, TLC

RECURSIVE Pow(_, _)
Pow(b, e) == IF e = 0 THEN 1 ELSE b * Pow(b, e - 1)

\* ---- polynomials -------------------------------------------------------------------------
Tm(co, e, u, g) == [co |-> co, e |-> e, u |-> u, g |-> g]
EP(c12, c6, a, b, d) == <<c12, c6, a, b, d>>
NoPow == EP(0, 0, 0, 0, 0)

FLJ126 == << Tm(1, EP(1, 0, 0, 0, 0), 12, 0), Tm(-1, EP(0, 1, 0, 0, 0), 6, 0) >>
FLJG == FLJ126 \o << Tm(1, EP(0, 0, 1, 0, 0), 0, 1) >>

\* d/d(symbol k) of symbol_k^n, times the inner derivative s
PowRule(t, k, s) == IF t.e[k] > 0 THEN << [t EXCEPT !.co = s * t.co * t.e[k], !.e[k] = @ - 1] >> ELSE << >>
DTerm(t, i) ==
  CASE i \in {0, 1, 2} -> PowRule(t, i + 1, 1)
    [] i = 3 -> PowRule(t, 4, 1) \o (IF t.g = 1 THEN << [t EXCEPT !.co = -t.co, !.e[5] = @ + 2] >> ELSE << >>)
    [] i = 4 -> PowRule(t, 5, -1)
                \o (IF t.g = 1 THEN << [t EXCEPT !.co = 2 * t.co, !.e[4] = @ + 1, !.e[5] = @ + 1] >> ELSE << >>)
RECURSIVE DPoly(_, _)
DPoly(p, i) == IF p = << >> THEN << >> ELSE DTerm(Head(p), i) \o DPoly(Tail(p), i)

\* normal form: monomial -> non-zero coefficient
KeyOf(t) == [e |-> t.e, u |-> t.u, g |-> t.g]
RECURSIVE CoefSum(_, _)
CoefSum(p, k) == IF p = << >> THEN 0 ELSE (IF KeyOf(Head(p)) = k THEN Head(p).co ELSE 0) + CoefSum(Tail(p), k)
Norm(p) == {kc \in {<<KeyOf(p[n]), CoefSum(p, KeyOf(p[n]))>> : n \in DOMAIN p} : kc[2] # 0}
SymEq(p, q) == Norm(p) = Norm(q)

\* ---- transcription of the closed forms in potentialfunctionlj126.cc / potentialfunctionljg.cc
G(co, a, b, d) == Tm(co, EP(0, 0, a, b, d), 0, 1)
AlgoDF126(i) == CASE i = 0 -> << Tm(1, NoPow, 12, 0) >> [] i = 1 -> << Tm(-1, NoPow, 6, 0) >>
AlgoD2F126(i, j) == << >>
AlgoDFLJG(i) == CASE i = 0 -> << Tm(1, NoPow, 12, 0) >>
                  [] i = 1 -> << Tm(-1, NoPow, 6, 0) >>
                  [] i = 2 -> << G(1, 0, 0, 0) >>
                  [] i = 3 -> << G(-1, 1, 0, 2) >>
                  [] i = 4 -> << G(2, 1, 1, 1) >>
AlgoD2FLJG(i, j) ==
  CASE i = 2 /\ j = 3 -> << G(-1, 0, 0, 2) >>
    [] i = 2 /\ j = 4 -> << G(2, 0, 1, 1) >>
    [] i = 3 /\ j = 2 -> << G(-1, 0, 0, 2) >>
    [] i = 3 /\ j = 3 -> << G(1, 1, 0, 4) >>
    [] i = 3 /\ j = 4 -> << G(2, 1, 0, 1), G(-2, 1, 1, 3) >>
    [] i = 4 /\ j = 2 -> << G(2, 0, 1, 1) >>
    [] i = 4 /\ j = 3 -> << G(2, 1, 0, 1), G(-2, 1, 1, 3) >>
    [] i = 4 /\ j = 4 -> << G(4, 1, 2, 2), G(-2, 1, 1, 0) >>
    [] OTHER -> << >>

NParam(fn) == IF fn = "lj126" THEN 2 ELSE 5
FOf(fn) == IF fn = "lj126" THEN FLJ126 ELSE FLJG
AlgoDF(fn, i) == IF fn = "lj126" THEN AlgoDF126(i) ELSE AlgoDFLJG(i)
AlgoD2F(fn, i, j) == IF fn = "lj126" THEN AlgoD2F126(i, j) ELSE AlgoD2FLJG(i, j)
SpecDF(fn, i) == DPoly(FOf(fn), i)
SpecD2F(fn, i, j) == DPoly(DPoly(FOf(fn), i), j)

\* the design-level theorems, for all parameter values and all r
ASSUME \A fn \in {"lj126", "ljg"} : \A i \in 0..(NParam(fn) - 1) :
         /\ SymEq(SpecDF(fn, i), AlgoDF(fn, i))
         /\ \A j \in 0..(NParam(fn) - 1) :
              /\ SymEq(SpecD2F(fn, i, j), AlgoD2F(fn, i, j))
              /\ SymEq(SpecD2F(fn, i, j), SpecD2F(fn, j, i))
              /\ SymEq(AlgoD2F(fn, i, j), AlgoD2F(fn, j, i))
\* the calculus itself: d/dB and d/dr0 of A d^2 E
ASSUME /\ SymEq(DPoly(<< G(1, 1, 0, 2) >>, 3), << G(-1, 1, 0, 4) >>)
       /\ SymEq(DPoly(<< G(1, 1, 0, 2) >>, 4), << G(-2, 1, 0, 1), G(2, 1, 1, 3) >>)
       /\ ~SymEq(<< G(1, 1, 0, 2) >>, << G(1, 1, 0, 1) >>)

\* ---- exact evaluation on the log-lattice -------------------------------------------------------
\* pt = [lam |-> <<c12, c6, A, m, j0>>, P |-> P, Q |-> Q, DP |-> DP]:  r = P/Q, B = m ln2, r0 = j0/Q
\* (Q = 2: dyadic lattice; Q = 10: decimal r with accumulated round-off in the code's grid loops;
\*  DP = highest power of d that may occur, 0 for the LJ 12-6 form)
JOf(pt) == pt.P - pt.lam[5]
OnLattice(pt) == pt.P > 0 /\ (pt.lam[4] * JOf(pt) * JOf(pt)) % (pt.Q * pt.Q) = 0
ExpOf(pt) == (pt.lam[4] * JOf(pt) * JOf(pt)) \div (pt.Q * pt.Q)         \* E = 2^-ExpOf
\* numerator over Q^DP of the rational factor of a term
TermNum(t, pt) == t.co * Pow(pt.lam[1], t.e[1]) * Pow(pt.lam[2], t.e[2]) * Pow(pt.lam[3], t.e[3])
                  * Pow(pt.lam[4], t.e[4]) * Pow(JOf(pt), t.e[5]) * Pow(pt.Q, pt.DP - t.e[5])
EvalKeys == << <<0, 0, 0>>, <<0, 0, 6>>, <<0, 0, 12>>, <<0, 1, 0>>, <<1, 1, 0>>, <<2, 1, 0>>, <<1, 0, 0>>, <<2, 0, 0>> >>
RECURSIVE GroupSum(_, _, _)
GroupSum(p, pt, k) == IF p = << >> THEN 0
                      ELSE (IF <<Head(p).e[4], Head(p).g, Head(p).u>> = k THEN TermNum(Head(p), pt) ELSE 0)
                           + GroupSum(Tail(p), pt, k)
CoveredK(p) == \A n \in DOMAIN p : \E k \in DOMAIN EvalKeys : EvalKeys[k] = <<p[n].e[4], p[n].g, p[n].u>>
\* value = sum over the returned terms of  n/d * ln2^l * 2^-e * (bn/bd)^bp
Eval(p, pt) ==
  LET all == [k \in DOMAIN EvalKeys |->
                [n |-> GroupSum(p, pt, EvalKeys[k]), d |-> Pow(pt.Q, pt.DP), l |-> EvalKeys[k][1],
                 e |-> EvalKeys[k][2] * ExpOf(pt), bn |-> pt.Q, bd |-> pt.P, bp |-> EvalKeys[k][3]]]
  IN SelectSeq(all, LAMBDA t : t.n # 0)
\* group-wise equality of two evaluated polynomials (sufficient for equality as reals)
Covered(p, pt) == CoveredK(p) /\ \A n \in DOMAIN p : p[n].e[5] <= pt.DP
EvalEq(p, q, pt) == Covered(p, pt) /\ Covered(q, pt) /\ \A k \in DOMAIN EvalKeys : GroupSum(p, pt, EvalKeys[k]) = GroupSum(q, pt, EvalKeys[k])

ASSUME LET pt == [lam |-> <<3, 5, 2, 4, 1>>, P |-> 2, Q |-> 2, DP |-> 4]      \* r = 1, r0 = 1/2, d = 1/2, B = 4 ln2, E = 2^-1
       IN /\ OnLattice(pt) /\ ExpOf(pt) = 1
          \* F = 3 - 5 + 2/2 : groups (l,g,u) = (0,0,12): 3*16, (0,0,6): -5*16, (0,1,0): 2*16
          /\ Eval(FLJG, pt) = << [n |-> -80, d |-> 16, l |-> 0, e |-> 0, bn |-> 2, bd |-> 2, bp |-> 6],
                                 [n |-> 48, d |-> 16, l |-> 0, e |-> 0, bn |-> 2, bd |-> 2, bp |-> 12],
                                 [n |-> 32, d |-> 16, l |-> 0, e |-> 1, bn |-> 2, bd |-> 2, bp |-> 0] >>

\* ---- cubic B-splines -----------------------------------------------------------------------
\* cfg = [NI, M, xmin]: NI intervals of width dr up to the cut-off, M sub-lattice points per interval,
\* xmin = min_ in sub-lattice units.  Coefficients lam: sequence of length NI + 3 (index k = 0..NI+2 is lam[k+1]).
NLam(cfg) == cfg.NI + 3
XCut(cfg) == cfg.NI * cfg.M
Idx(cfg, X) == Min2(X \div cfg.M, cfg.NI - 1)              \* std::min((Index)(r / dr_), nbreak_ - 2)
\* Cox-de Boor, knots at the integers (in units of dr): numerator of N_{i,p}(X/M) over p! M^p.
\* The degree-0 functions are the indicator functions of the knot intervals (the last one closed at the cut-off).
RECURSIVE NB(_, _, _, _)
NB(cfg, p, i, X) ==
  IF p = 0 THEN (IF Idx(cfg, X) = i THEN 1 ELSE 0)
  ELSE (X - i * cfg.M) * NB(cfg, p - 1, i, X) + ((i + p + 1) * cfg.M - X) * NB(cfg, p - 1, i + 1, X)
BasisDen(cfg) == 6 * cfg.M * cfg.M * cfg.M
\* the basis function that multiplies coefficient k has support [k-3, k+1]
SpecBasis(cfg, k, X) == NB(cfg, 3, k - 3, X)
\* (1, t, t^2, t^3) M_ with t = T/M, numerators over 6 M^3
AlgoPiece(M, q, T) == CASE q = 0 -> M * M * M - 3 * M * M * T + 3 * M * T * T - T * T * T
                        [] q = 1 -> 4 * M * M * M - 6 * M * T * T + 3 * T * T * T
                        [] q = 2 -> M * M * M + 3 * M * M * T + 3 * M * T * T - 3 * T * T * T
                        [] q = 3 -> T * T * T
                        [] OTHER -> 0
AlgoBasis(cfg, k, X) == AlgoPiece(cfg.M, k - Idx(cfg, X), X - Idx(cfg, X) * cfg.M)
\* first and second derivative of the pieces with respect to T (times M, M^2 resp.)
AlgoPiece1(M, q, T) == CASE q = 0 -> -3 * M * M + 6 * M * T - 3 * T * T
                         [] q = 1 -> -12 * M * T + 9 * T * T
                         [] q = 2 -> 3 * M * M + 6 * M * T - 9 * T * T
                         [] q = 3 -> 3 * T * T
                         [] OTHER -> 0
AlgoPiece2(M, q, T) == CASE q = 0 -> 6 * M - 6 * T [] q = 1 -> -12 * M + 18 * T [] q = 2 -> 6 * M - 18 * T
                         [] q = 3 -> 6 * T [] OTHER -> 0

\* CalculateF (numerator over BasisDen): zero beyond the cut-off
RECURSIVE FSum(_, _, _, _)
FSum(cfg, lam, X, k) == IF k > cfg.NI + 2 THEN 0 ELSE lam[k + 1] * SpecBasis(cfg, k, X) + FSum(cfg, lam, X, k + 1)
SpecF(cfg, lam, X) == IF X > XCut(cfg) THEN 0 ELSE FSum(cfg, lam, X, 0)
Nexcl(cfg) == Min2(cfg.xmin \div cfg.M, cfg.NI - 1) + 1     \* knots with k dr <= min_ are not optimised
NOpt(cfg) == NLam(cfg) - Nexcl(cfg) - 4
Bump(lam, k) == [lam EXCEPT ![k + 1] = @ + 1]
\* derivative with respect to optimised parameter i = coefficient i + nexcl (linear: exact difference)
SpecDFSpl(cfg, lam, i, X) == SpecF(cfg, Bump(lam, i + Nexcl(cfg)), X) - SpecF(cfg, lam, X)
\* extrapolExclParam: the excluded coefficients continue the first two optimised ones linearly,
\* with the slope forced non-positive ("artificially enforcing repulsive core")
Extrapolated(cfg, lam) ==
  LET ne == Nexcl(cfg)
      s0 == lam[ne + 2] - lam[ne + 1]
      s == IF s0 > 0 THEN -s0 ELSE s0
  IN [k \in 1..Len(lam) |-> IF k - 1 < ne THEN lam[ne + 1] + s * (k - 1 - ne) ELSE lam[k]]

\* the matrix M_ is the uniform cubic B-spline: equals Cox-de Boor, partition of unity, non-negative,
\* local support, and the pieces join C2 at the knots
BasisOK(cfg) ==
  /\ \A X \in 0..XCut(cfg) :
       /\ \A k \in 0..(cfg.NI + 2) : /\ AlgoBasis(cfg, k, X) = SpecBasis(cfg, k, X)
                                     /\ SpecBasis(cfg, k, X) >= 0
                                     /\ (SpecBasis(cfg, k, X) # 0 => k \in Idx(cfg, X)..(Idx(cfg, X) + 3))
       /\ SpecF(cfg, [k \in 1..NLam(cfg) |-> 1], X) = BasisDen(cfg)
  \* the piece of coefficient k on interval idx is q = k - idx; from one interval to the next q drops by one
  /\ \A q \in 0..4 : /\ AlgoPiece(cfg.M, q - 1, 0) = AlgoPiece(cfg.M, q, cfg.M)
                     /\ AlgoPiece1(cfg.M, q - 1, 0) = AlgoPiece1(cfg.M, q, cfg.M)
                     /\ AlgoPiece2(cfg.M, q - 1, 0) = AlgoPiece2(cfg.M, q, cfg.M)
ASSUME \A NI \in {2, 4, 5} : \A M \in {1, 2, 4} : BasisOK([NI |-> NI, M |-> M, xmin |-> 0])
=============================================================================
