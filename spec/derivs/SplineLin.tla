------------------------------ MODULE SplineLin ------------------------------
(* C07, splines: "the reported derivative is the derivative of the reported spline value",
   for the cases where both are exact rationals on the lattice:
     * LinSpline (Interpolate, and Fit of data that lie on a piecewise-linear function of the grid):
       piecewise-linear interpolant through integer knots (xs, ys);
     * straight-line data y = al x + be for every spline type (linear, natural cubic, Akima): the
       interpolant of collinear data is the line itself.
   Evaluation points are the half-lattice x = X/2 inside [xs[1], xs[N]].
   value(X) = [n, d] (a rational), slopes(X) = the set of admissible derivatives: one slope inside an
   interval, the slopes of both adjacent pieces at an interior knot (one-sided derivatives: DESIGN 7.1).
   TLC checks (InvFD) that within every closed knot interval the difference quotient of the value
   between ANY two lattice points equals the stated slope - for a piecewise-linear function this
   exact finite difference IS the derivative - and continuity at the knots.
   (Curved-data derivative-of-value for cubic/Akima splines belongs to C12, spec/spline.)        *)
EXTENDS Integers, Sequences, FiniteSets, CArith, TLC, Json

CONSTANTS KnotSets, YSeeds, Lines, Emit
VARIABLES c, ph
vars == <<c, ph>>

YOf(s, xs) == [k \in 1..Len(xs) |-> ((k * k * 5 + s * 7 + k * s * 3) % 13) - 5]
LineY(l, xs) == [k \in 1..Len(xs) |-> l[1] * xs[k] + l[2]]

Init == /\ ph = 0
        /\ \/ \E xs \in KnotSets, s \in YSeeds, mode \in {"interp", "fit"} :
                \* Fit works on the uniform grid of Spline::GenerateGrid
                /\ (mode = "fit" => \A i \in 1..(Len(xs) - 1) : xs[i + 1] - xs[i] = xs[2] - xs[1])
                /\ c = [typ |-> "lin", mode |-> mode, xs |-> xs, ys |-> YOf(s, xs)]
           \/ \E xs \in KnotSets, l \in Lines, typ \in {"lin", "cubic", "akima"} :
                /\ (typ = "akima" => Len(xs) >= 4) /\ (typ = "cubic" => Len(xs) >= 3)
                /\ c = [typ |-> typ, mode |-> "interp", xs |-> xs, ys |-> LineY(l, xs)]
Next == ph = 0 /\ ph' = 1 /\ UNCHANGED c
Spec == Init /\ [][Next]_vars

N == Len(c.xs)
XLo == 2 * c.xs[1]
XHi == 2 * c.xs[N]
\* intervals (1..N-1) whose closure contains x = X/2
Ivs(X) == {i \in 1..(N - 1) : 2 * c.xs[i] <= X /\ X <= 2 * c.xs[i + 1]}
\* value of piece i at X/2, numerator over 2 (xs[i+1] - xs[i])
PieceNum(i, X) == c.ys[i] * (2 * c.xs[i + 1] - X) + c.ys[i + 1] * (X - 2 * c.xs[i])
PieceDen(i) == 2 * (c.xs[i + 1] - c.xs[i])
Slope(i) == <<c.ys[i + 1] - c.ys[i], c.xs[i + 1] - c.xs[i]>>
Value(X) == LET i == CHOOSE j \in Ivs(X) : TRUE IN <<PieceNum(i, X), PieceDen(i)>>
Slopes(X) == {Slope(i) : i \in Ivs(X)}

DomainOK == /\ N >= 2 /\ \A i \in 1..(N - 1) : c.xs[i] < c.xs[i + 1]
InvFD == ph = 1 =>
  /\ \A X \in XLo..XHi : /\ Ivs(X) # {}
                         \* continuity: both pieces give the same value at a knot
                         /\ \A i \in Ivs(X), j \in Ivs(X) : PieceNum(i, X) * PieceDen(j) = PieceNum(j, X) * PieceDen(i)
  \* exact finite differences inside one piece: (v(X2) - v(X1)) / ((X2 - X1)/2) = slope
  /\ \A i \in 1..(N - 1) : \A X1 \in (2 * c.xs[i])..(2 * c.xs[i + 1]), X2 \in (2 * c.xs[i])..(2 * c.xs[i + 1]) :
       X1 < X2 => (PieceNum(i, X2) - PieceNum(i, X1)) * 2 * Slope(i)[2] = Slope(i)[1] * (X2 - X1) * PieceDen(i)
  \* the interpolant passes through the data
  /\ \A i \in 1..N : Value(2 * c.xs[i])[1] = c.ys[i] * Value(2 * c.xs[i])[2]
Vector == (Emit /\ ph = 1) =>
  PrintT(ToJson([typ |-> c.typ, mode |-> c.mode, xs |-> c.xs, ys |-> c.ys,
                 pts |-> [n \in 1..(XHi - XLo + 1) |->
                            LET X == XLo + n - 1
                            IN [X |-> X, v |-> Value(X), dv |-> Slopes(X)]]]))
=============================================================================
