#!/usr/bin/env python3
"""One-off cross-check of the identities stated in Derivs.tla (DESIGN.md Appendix E risk:
a mis-derived identity would be a false alarm against the code).  NOT part of any
registered check; results are recorded in README.md.

Input: the JSON lines TLC printed for a DerivGeom model (the spec's own output), e.g.
    C07_SLICE=0 java ... tlc2.TLC -config MCGeomQuick.cfg MCGeomQuick.tla > out.txt
    python3 crosscheck.py out.txt [stride]

For every stride-th record the value function is written down here FROM ITS DEFINITION
(|a|; acos(a.b/|a||b|); sign(b1.n2) acos(n1.n2/|n1||n2|)) in 60-digit decimal arithmetic
(plain python `decimal`, own atan series, no floating point), differentiated by central
differences with h = 1e-15 lattice units (truncation error ~1e-30), and compared with the
spec's statement  g * m * sqrt(r) = v  and  fn(value) * sqrt(l) = v * sqrt(rr)  at 1e-24.
"""
import json
import sys
from decimal import Decimal as D, getcontext

getcontext().prec = 60
ONE, ZERO = D(1), D(0)


def atan(x):
    # argument halving: atan(x) = 2 atan(x / (1 + sqrt(1 + x^2)))
    n = 0
    while abs(x) > D("0.01"):
        x = x / (1 + (1 + x * x).sqrt())
        n += 1
    s, t, k, x2 = ZERO, x, 1, x * x
    while abs(t) > D(10) ** -70:
        s += t / k
        t = -t * x2
        k += 2
    return s * (2 ** n)


PI = 4 * (4 * atan(ONE / 5) - atan(ONE / 239))


def atan2(y, x):
    if x > 0:
        return atan(y / x)
    if x < 0:
        return atan(y / x) + (PI if y >= 0 else -PI)
    return PI / 2 if y > 0 else -PI / 2


def acos(c):
    return atan2((1 - c * c).sqrt(), c)


def sub(a, b):
    return [a[i] - b[i] for i in range(3)]


def dot(a, b):
    return sum(a[i] * b[i] for i in range(3))


def cross(a, b):
    return [a[1] * b[2] - a[2] * b[1], a[2] * b[0] - a[0] * b[2], a[0] * b[1] - a[1] * b[0]]


def value(kind, pos):
    """the value function, from its definition, on bead positions (plain differences)"""
    if kind == "bond":
        a = sub(pos[1], pos[0])
        return dot(a, a).sqrt()
    if kind == "angle":
        a, b = sub(pos[0], pos[1]), sub(pos[2], pos[1])
        return acos(dot(a, b) / (dot(a, a) * dot(b, b)).sqrt())
    b1, b2, b3 = sub(pos[1], pos[0]), sub(pos[2], pos[1]), sub(pos[3], pos[2])
    n1, n2 = cross(b1, b2), cross(b2, b3)
    sign = -1 if dot(b1, n2) < 0 else 1
    return sign * acos(dot(n1, n2) / (dot(n1, n1) * dot(n2, n2)).sqrt())


def relpos(kind, u):
    u = [[D(x) for x in v] for v in u]
    z = [ZERO] * 3
    add = lambda a, b: [a[i] + b[i] for i in range(3)]
    if kind == "bond":
        return [z, u[0]]
    if kind == "angle":
        return [u[0], z, u[1]]
    return [z, u[0], add(u[0], u[1]), add(add(u[0], u[1]), u[2])]


def dsin_dcos(x):
    # sin/cos by Taylor series after reduction
    def cos(y):
        n = 0
        while abs(y) > D("0.01"):
            y /= 2
            n += 1
        s, t, k = ZERO, ONE, 0
        while abs(t) > D(10) ** -70:
            s += t
            k += 2
            t = -t * y * y / (k * (k - 1))
        for _ in range(n):
            s = 2 * s * s - 1
        return s
    return cos(x - PI / 2), cos(x)


def main():
    path = sys.argv[1]
    stride = int(sys.argv[2]) if len(sys.argv) > 2 else 1
    h = D(10) ** -15
    tol = D(10) ** -24
    n = {"bond": 0, "angle": 0, "dih": 0}
    worst = ZERO
    k = 0
    for line in open(path):
        line = line.strip()
        if not line.startswith('"{'):
            continue
        k += 1
        if k % stride:
            continue
        r = json.loads(json.loads(line))
        kind = r["k"]
        # connection vectors as the spec says (periodic placements: u is what the spec proved
        # the shortest images to be; an infinitesimal displacement does not change the image)
        pos = relpos(kind, r["u"])
        v0 = value(kind, pos)
        s, c = dsin_dcos(v0)
        for x in r["vals"]:
            f = {"id": v0, "cos": c, "sin": s}[x["fn"]]
            lhs, rhs = f * D(x["l"]).sqrt(), x["v"] * D(x["rr"]).sqrt()
            err = abs(lhs - rhs) / max(ONE, abs(rhs))
            worst = max(worst, err)
            if err > tol:
                print("VALUE MISMATCH", r, x, lhs, rhs)
                return 1
        for b, g in enumerate(r["g"]):
            for ax in range(3):
                pp = [list(p) for p in pos]
                pm = [list(p) for p in pos]
                pp[b][ax] += h
                pm[b][ax] -= h
                fd = (value(kind, pp) - value(kind, pm)) / (2 * h)
                lhs, rhs = fd * g["m"] * D(g["r"]).sqrt(), D(g["v"][ax])
                err = abs(lhs - rhs) / max(ONE, abs(rhs))
                worst = max(worst, err)
                if err > tol:
                    print("GRADIENT MISMATCH", r, "bead", b, "axis", ax, lhs, rhs)
                    return 1
        n[kind] += 1
    print("cross-check ok:", n, "worst relative deviation %.3e" % worst)
    return 0


if __name__ == "__main__":
    sys.exit(main())
