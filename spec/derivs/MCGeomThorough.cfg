SPECIFICATION Spec
CONSTANTS
  MB = 6
  MA = 4
  MD = 3
  Thin = 8
  CovThin = 6
  Slice <- MCSlice
  Emit = TRUE
INVARIANTS DomainOK InvChar InvCov InvRev InvPlace
CHECK_DEADLOCK FALSE
