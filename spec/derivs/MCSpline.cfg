SPECIFICATION Spec
CONSTANTS
  KnotSets <- MCKnots
  YSeeds = {0, 1, 2, 3, 4}
  Lines <- MCLines
  Emit = TRUE
INVARIANTS DomainOK InvFD Vector
CHECK_DEADLOCK FALSE
