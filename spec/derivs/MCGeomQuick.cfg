SPECIFICATION Spec
CONSTANTS
  MB = 4
  MA = 3
  MD = 2
  Thin = 5
  CovThin = 8
  Slice <- MCSlice
  Emit = TRUE
INVARIANTS DomainOK InvChar InvCov InvRev InvPlace
CHECK_DEADLOCK FALSE
