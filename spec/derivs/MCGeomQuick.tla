---- MODULE MCGeomQuick ----
EXTENDS DerivGeom, IOUtils
\* which slice of the thinned dihedral domain: chosen by the runner from the seed
MCSlice == atoi(IOEnv.C07_SLICE)
====
