------------------------------- MODULE Derivs -------------------------------
(* C07, bonded interactions: value and TRUE gradient of bond length, bond angle and
   dihedral angle on integer bead configurations, as exact algebraic identities.

   Lattice unit = 1/8 nm (as in Pbc.tla).  All vectors are CONNECTION vectors
   (shortest periodic image of a difference of bead positions):
     bond      u = <<a>>          a  = conn(bead0 -> bead1)
     angle     u = <<a, b>>       a  = conn(bead1 -> bead0),  b = conn(bead1 -> bead2)
     dihedral  u = <<b1, b2, b3>> bi = conn(bead(i-1) -> bead(i))
   (the order in which IBond/IAngle/IDihedral call Topology::getDist).

   Irrational quantities never appear.  A gradient is stated as a record
        [m, r, v]    meaning    g * m * sqrt(r) = v      (m, r positive integers, v an integer vector)
   and a value as a list of records
        [fn, l, v, rr]  meaning  fn(value) * sqrt(l) = v * sqrt(rr)    (fn = "id" | "cos" | "sin").

   Two layers:
     ...Grads / ...Vals   the closed forms (derived by hand from theta = acos(D / sqrt(AB)) and the
                          IUPAC dihedral; cross-checked once against high-precision finite
                          differences of the value function, see README.md), and
     Char...              a declarative characterisation of the true gradient that does not use
                          the closed form: direction, magnitude, sign, and the consequences of
                          the invariance of the value under translation (sum = 0), rotation
                          (net torque = 0), stretching along a bond (g . bond = 0).
   TLC checks closed form |= characterisation on every configuration of the domain, the
   covariance of both under the 48 lattice rotations/reflections, and (DerivGeom.tla) the
   invariance under translations and periodic image shifts.                              *)
EXTENDS Pbc, TLC

Gr(m, r, v) == [m |-> m, r |-> r, v |-> v]
Vl(fn, l, v, rr) == [fn |-> fn, l |-> l, v |-> v, rr |-> rr]

\* ---- the 48 lattice rotations / reflections (signed permutation matrices) --------------
PermSeq == << <<1, 2, 3>>, <<2, 3, 1>>, <<3, 1, 2>>, <<1, 3, 2>>, <<3, 2, 1>>, <<2, 1, 3>> >>
PermSign(p) == IF p \in {<<1, 2, 3>>, <<2, 3, 1>>, <<3, 1, 2>>} THEN 1 ELSE -1
GOf(h) == [p |-> PermSeq[(h % 6) + 1],
           s |-> <<1 - 2 * ((h \div 6) % 2), 1 - 2 * ((h \div 12) % 2), 1 - 2 * ((h \div 24) % 2)>>]
O48 == {GOf(h) : h \in 0..47}
Act(G, v) == <<G.s[1] * v[G.p[1]], G.s[2] * v[G.p[2]], G.s[3] * v[G.p[3]]>>
DetG(G) == PermSign(G.p) * G.s[1] * G.s[2] * G.s[3]
ActU(G, u) == [i \in DOMAIN u |-> Act(G, u[i])]

ASSUME /\ Cardinality(O48) = 48
       /\ \A G \in O48 : /\ Cross(Act(G, <<1, 2, 3>>), Act(G, <<-2, 5, 1>>)) = VScale(DetG(G), Act(G, Cross(<<1, 2, 3>>, <<-2, 5, 1>>)))
                         /\ Dot(Act(G, <<1, 2, 3>>), Act(G, <<-2, 5, 1>>)) = Dot(<<1, 2, 3>>, <<-2, 5, 1>>)
                         /\ Det3(Act(G, <<1, 0, 0>>), Act(G, <<0, 1, 0>>), Act(G, <<0, 0, 1>>)) = DetG(G)

\* ---- bond ------------------------------------------------------------------------------
BondOK(u) == u[1] # Zero3
\* value = |a|
BondVals(u) == << Vl("id", 1, 1, Norm2(u[1])) >>
\* d|a|/dr1 = a/|a|, d|a|/dr0 = -a/|a|
BondGrads(u) == LET a == u[1] IN << Gr(1, Norm2(a), VNeg(a)), Gr(1, Norm2(a), a) >>

\* ---- angle -----------------------------------------------------------------------------
AngA(u) == Norm2(u[1])
AngB(u) == Norm2(u[2])
AngD(u) == Dot(u[1], u[2])
AngS2(u) == AngA(u) * AngB(u) - AngD(u) * AngD(u)      \* = |a x b|^2
\* the documented non-singular domain: theta in (0, pi)
AngleOK(u) == AngS2(u) > 0
\* cos(theta) |a||b| = a.b ;  sin(theta) |a||b| = |a x b|  (theta in (0,pi): sin > 0)
AngleVals(u) == << Vl("cos", AngA(u) * AngB(u), AngD(u), 1), Vl("sin", AngA(u) * AngB(u), 1, AngS2(u)) >>
\* theta = acos(D / sqrt(AB)):  dtheta/da = -(1/sin) d(cos)/da = -(A b - D a) / (A S),  S = sqrt(AB - D^2)
AngleGrads(u) ==
  LET a == u[1]
      b == u[2]
      A == AngA(u)
      B == AngB(u)
      D == AngD(u)
      S2 == AngS2(u)
      ea == VSub(VScale(A, b), VScale(D, a))      \* A b - D a
      eb == VSub(VScale(B, a), VScale(D, b))      \* B a - D b
  IN << Gr(A, S2, VNeg(ea)),                                   \* bead 0
        Gr(A * B, S2, VAdd(VScale(B, ea), VScale(A, eb))),     \* bead 1
        Gr(B, S2, VNeg(eb)) >>                                 \* bead 2

\* ---- dihedral --------------------------------------------------------------------------
DihN1(u) == Cross(u[1], u[2])
DihN2(u) == Cross(u[2], u[3])
DihT(u) == Dot(u[1], DihN2(u))           \* triple product b1 . (b2 x b3): the handedness
\* non-singular: both planes defined, phi not 0 or pi
DihOK(u) == Norm2(DihN1(u)) > 0 /\ Norm2(DihN2(u)) > 0 /\ DihT(u) # 0
\* sign convention of IDihedral::EvaluateVar (= IUPAC): sign(phi) = sign(b1 . n2);
\* cos(phi) |n1||n2| = n1.n2 ;  sin(phi) |n1||n2| = |b2| (b1 . n2)
DihVals(u) == LET N1 == Norm2(DihN1(u))
                  N2 == Norm2(DihN2(u))
              IN << Vl("cos", N1 * N2, Dot(DihN1(u), DihN2(u)), 1), Vl("sin", N1 * N2, DihT(u), Norm2(u[2])) >>
\* with this sign convention (SigmaDih = -1 in the notation of DESIGN 5/C07):
\*   dphi/dr0 = -|b2| n1 / |n1|^2          dphi/dr3 = +|b2| n2 / |n2|^2
\*   dphi/dr1 = -(1 + P/B2) dphi/dr0 + (Q/B2) dphi/dr3
\*   dphi/dr2 =  (P/B2) dphi/dr0 - (1 + Q/B2) dphi/dr3        P = b1.b2, Q = b3.b2, B2 = |b2|^2
SigmaDih == -1
DihGrads(u) ==
  LET n1 == DihN1(u)
      n2 == DihN2(u)
      N1 == Norm2(n1)
      N2 == Norm2(n2)
      B2 == Norm2(u[2])
      P == Dot(u[1], u[2])
      Q == Dot(u[3], u[2])
  IN << Gr(N1, B2, VScale(SigmaDih * B2, n1)),
        Gr(N1 * N2, B2, VAdd(VScale(-SigmaDih * (B2 + P) * N2, n1), VScale(-SigmaDih * Q * N1, n2))),
        Gr(N1 * N2, B2, VAdd(VScale(SigmaDih * P * N2, n1), VScale(SigmaDih * (B2 + Q) * N1, n2))),
        Gr(N2, B2, VScale(-SigmaDih * B2, n2)) >>

\* ---- generic access ----------------------------------------------------------------------
OKOf(k, u) == CASE k = "bond" -> BondOK(u) [] k = "angle" -> AngleOK(u) [] k = "dih" -> DihOK(u)
ValsOf(k, u) == CASE k = "bond" -> BondVals(u) [] k = "angle" -> AngleVals(u) [] k = "dih" -> DihVals(u)
GradsOf(k, u) == CASE k = "bond" -> BondGrads(u) [] k = "angle" -> AngleGrads(u) [] k = "dih" -> DihGrads(u)
NBeads(k) == CASE k = "bond" -> 2 [] k = "angle" -> 3 [] k = "dih" -> 4
\* bead positions relative to the first bead of the placement
RelPos(k, u) == CASE k = "bond" -> <<Zero3, u[1]>>
                  [] k = "angle" -> <<u[1], Zero3, u[2]>>
                  [] k = "dih" -> <<Zero3, u[1], VAdd(u[1], u[2]), VAdd(VAdd(u[1], u[2]), u[3])>>
\* which ordered bead pairs (1-based) the interaction asks Topology::getDist for, in the order of u
ConnPairs(k) == CASE k = "bond" -> << <<1, 2>> >>
                  [] k = "angle" -> << <<2, 1>>, <<2, 3>> >>
                  [] k = "dih" -> << <<1, 2>>, <<2, 3>>, <<3, 4>> >>

\* ---- declarative characterisation of the true gradient -------------------------------------
\* |g|^2 = num/den  for g = [m, r, v]
HasNorm2(g, num, den) == Norm2(g.v) * den = num * g.m * g.m * g.r
Parallel(v, w) == Cross(v, w) = Zero3
\* sum of gradients (brought to a common scale by the caller)
CharBond(u, g) ==
  LET a == u[1]
  IN /\ Parallel(g[2].v, a) /\ Dot(g[2].v, a) > 0 /\ HasNorm2(g[2], 1, 1)      \* unit vector along the bond
     /\ g[1].m = g[2].m /\ g[1].r = g[2].r /\ VAdd(g[1].v, g[2].v) = Zero3    \* translation invariance

\* end bead of arm a (other arm b): the gradient lies in the plane of the two arms, is perpendicular to
\* its own arm (stretching the arm does not change the angle), has magnitude 1/|a| (arc length) and points
\* away from the other arm (moving the end towards b closes the angle)
CharAngleEnd(a, b, g) == /\ Dot(g.v, Cross(a, b)) = 0
                         /\ Dot(g.v, a) = 0
                         /\ HasNorm2(g, 1, Norm2(a))
                         /\ Dot(g.v, b) < 0
CharAngle(u, g) ==
  LET a == u[1]
      b == u[2]
  IN /\ CharAngleEnd(a, b, g[1])
     /\ CharAngleEnd(b, a, g[3])
     \* translation invariance: g0 + g1 + g2 = 0 (common scale A B S)
     /\ g[1].r = g[2].r /\ g[3].r = g[2].r /\ g[2].m = g[1].m * g[3].m
     /\ VAdd(VAdd(VScale(g[3].m, g[1].v), VScale(g[1].m, g[3].v)), g[2].v) = Zero3
     \* rotation invariance: net torque about bead 1 vanishes  a x g0 + b x g2 = 0
     /\ VAdd(VScale(g[3].m, Cross(a, g[1].v)), VScale(g[1].m, Cross(b, g[3].v))) = Zero3

\* end bead 0: gradient perpendicular to the plane (b1,b2), magnitude 1/(distance from the axis b2)
\* = |b2|/|n1|; the sign is the convention.  Inner beads: fixed by translation invariance (sum = 0),
\* rotation invariance (torque = 0) and invariance under sliding an inner bead along the axis (g . b2 = 0).
CharDih(u, g) ==
  LET b1 == u[1]
      b2 == u[2]
      b3 == u[3]
      n1 == DihN1(u)
      n2 == DihN2(u)
      B2 == Norm2(b2)
      w1 == VScale(g[4].m, g[1].v)       \* g0 at the common scale N1 N2 sqrt(B2)
      w4 == VScale(g[1].m, g[4].v)
  IN /\ Parallel(g[1].v, n1) /\ HasNorm2(g[1], B2, Norm2(n1)) /\ Dot(g[1].v, n1) * SigmaDih > 0
     /\ Parallel(g[4].v, n2) /\ HasNorm2(g[4], B2, Norm2(n2)) /\ Dot(g[4].v, n2) * SigmaDih < 0
     /\ \A i \in 1..4 : g[i].r = B2
     /\ g[2].m = g[1].m * g[4].m /\ g[3].m = g[2].m
     /\ VAdd(VAdd(w1, g[2].v), VAdd(g[3].v, w4)) = Zero3
     /\ Dot(g[2].v, b2) = 0 /\ Dot(g[3].v, b2) = 0
     \* torque about bead 1: (r0-r1) x g0 + (r2-r1) x g2 + (r3-r1) x g3 = 0
     /\ VAdd(VAdd(Cross(VNeg(b1), w1), Cross(b2, g[3].v)), Cross(VAdd(b2, b3), w4)) = Zero3

CharOf(k, u, g) == CASE k = "bond" -> CharBond(u, g) [] k = "angle" -> CharAngle(u, g) [] k = "dih" -> CharDih(u, g)

\* scale invariance (Euler): sum_i r_i . g_i = value for the bond (degree 1), 0 for the angles (degree 0)
EulerOf(k, u, g) ==
  LET rp == RelPos(k, u)
  IN CASE k = "bond" -> Dot(rp[2], g[2].v) = Norm2(u[1])          \* r.g |a| = |a|^2
       [] k = "angle" -> Dot(rp[1], g[1].v) = 0 /\ Dot(rp[3], g[3].v) = 0
       [] k = "dih" -> Dot(rp[2], g[2].v) + Dot(rp[3], g[3].v) + Dot(rp[4], VScale(g[1].m, g[4].v)) = 0

\* ---- covariance under a lattice rotation / reflection G -------------------------------------
\* bond length and bond angle are scalars, the dihedral is a pseudo-scalar: phi(G u) = det(G) phi(u)
Parity(k, G) == IF k = "dih" THEN DetG(G) ELSE 1
\* g0 / x0 = GradsOf(k, u) / ValsOf(k, u), passed in so that they are evaluated once per geometry
CovGrads(k, u, g0, G) ==
  LET h == GradsOf(k, ActU(G, u))
      par == Parity(k, G)
  IN \A i \in DOMAIN g0 : /\ h[i].m = g0[i].m /\ h[i].r = g0[i].r
                          /\ h[i].v = VScale(par, Act(G, g0[i].v))
CovVals(k, u, x0, G) ==
  LET y == ValsOf(k, ActU(G, u))
  IN \A i \in DOMAIN x0 : /\ y[i].l = x0[i].l /\ y[i].rr = x0[i].rr /\ y[i].fn = x0[i].fn
                          /\ y[i].v = (IF x0[i].fn = "sin" THEN Parity(k, G) ELSE 1) * x0[i].v
\* reversing the bead order leaves the value unchanged and permutes the gradients
RevU(k, u) == CASE k = "bond" -> <<VNeg(u[1])>>
                [] k = "angle" -> <<u[2], u[1]>>
                [] k = "dih" -> <<VNeg(u[3]), VNeg(u[2]), VNeg(u[1])>>
RevOK(k, u) ==
  LET g == GradsOf(k, u)
      h == GradsOf(k, RevU(k, u))
      n == NBeads(k)
  IN /\ ValsOf(k, RevU(k, u)) = ValsOf(k, u)
     /\ \A i \in 1..n : h[i] = g[n + 1 - i]

ASSUME \* the defect probe of DESIGN 5/C07: beads (2,0,0),(0,0,0),(1,1,0): true g0 = (0,-1/2,0)
       /\ AngleGrads(<< <<2, 0, 0>>, <<1, 1, 0>> >>)[1] = Gr(4, 4, <<0, -4, 0>>)
       \* trans-like and +90 degree dihedrals
       /\ DihVals(<< <<1, 0, 0>>, <<0, 1, 0>>, <<0, 0, 1>> >>) = << Vl("cos", 1, 0, 1), Vl("sin", 1, 1, 1) >>
=============================================================================
