----------------------------- MODULE DerivGeom -----------------------------
(* Mode L for C07 (bonded interactions): one state per bead geometry.

   Domain: connection vectors with components in -M..M (M = MB / MA / MD for bonds, angles,
   dihedrals), one vector of each geometry brought to canonical form (x >= y >= z >= 0) by the
   48 lattice symmetries, singular geometries excluded (AngleOK / DihOK = the documented
   non-singular domain), dihedrals thinned 1/Thin by hash (slice chosen from the seed).

   For every geometry TLC checks (ph = 1, so that the work is done by the worker threads):
     InvChar     closed-form gradients satisfy the declarative characterisation (Derivs.tla);
                 in particular sum of gradients = 0 and net torque = 0
     InvCov      value identities and gradients are covariant under all 48 rotations/reflections
     InvRev      reversing the bead order permutes the gradients
     InvPlace    (also prints the vector) the placement that is exported (rotation G, translation o, periodic box, image
                 shift of every bead, all chosen by hash) has exactly the connection vectors
                 G u: unique shortest image (Pbc!SpecMI), equal to the transcription of
                 BCShortestConnection -- i.e. value and gradient are invariant under translation
                 and box-vector shifts of individual beads
                 and the placement is printed with the expected integer right-hand sides      *)
EXTENDS Derivs, Json

CONSTANTS MB, MA, MD, Thin, CovThin, Slice, Emit
VARIABLES c, ph
vars == <<c, ph>>

Cube(m) == {<<x, y, z>> : x \in (-m)..m, y \in (-m)..m, z \in (-m)..m}
Canon(v) == v[1] >= v[2] /\ v[2] >= v[3] /\ v[3] >= 0 /\ v # Zero3
CubeB == {v \in Cube(MB) : Canon(v)}
CubeA == Cube(MA)
CanonA == {v \in CubeA : Canon(v)}
CubeD == Cube(MD)
CanonD == {v \in CubeD : Canon(v)}

\* multipliers are primes; every term stays far below 2^31
HV(v, i) == v[1] * (7919 + 104729 * i) + v[2] * (15013 + 1299709 * i) + v[3] * (611953 + 350377 * i)
HashU(u) == ((IF 1 \in DOMAIN u THEN HV(u[1], 1) ELSE 0) + (IF 2 \in DOMAIN u THEN HV(u[2], 2) ELSE 0)
             + (IF 3 \in DOMAIN u THEN HV(u[3], 3) ELSE 0) + (Slice % 1000) * 7927 + 500000000) % 1000003
Selected(u) == HashU(u) % Thin = Slice % Thin

Init == /\ ph = 0
        /\ \/ \E a \in CubeB : c = [k |-> "bond", u |-> <<a>>]
           \/ \E a \in CanonA, b \in CubeA : AngleOK(<<a, b>>) /\ c = [k |-> "angle", u |-> <<a, b>>]
           \/ \E b2 \in CanonD, b1 \in CubeD, b3 \in CubeD :
                 /\ DihOK(<<b1, b2, b3>>) /\ Selected(<<b1, b2, b3>>)
                 /\ c = [k |-> "dih", u |-> <<b1, b2, b3>>]
Next == ph = 0 /\ ph' = 1 /\ UNCHANGED c
Spec == Init /\ [][Next]_vars

\* ---- the exported placement ---------------------------------------------------------------
Offsets == << <<0, 0, 0>>, <<1, -2, 3>>, <<-5, 4, -1>>, <<7, 7, -6>>, <<-3, -8, 2>>, <<40, -24, 9>> >>
\* image shifts of individual beads, up to 4000 boxes
Shifts == << <<0, 0, 0>>, <<1, 0, 0>>, <<0, -1, 0>>, <<0, 0, 1>>, <<1, 1, 1>>, <<-1, 2, 0>>, <<3, -3, 2>>,
             <<-2, 0, -3>>, <<500, -500, 0>>, <<0, 0, -1000>>, <<-700, 900, 1000>>, <<4000, -4000, 4000>>,
             <<-3999, 2500, 0>>, <<0, 4000, -4000>>, <<-4000, -4000, -4000>> >>
\* Boxes are generated from the hash: edges 6..16 (det <= 4096 keeps Pbc!SpecMI below 2^31), all GROMACS-reduced
\* off-diagonals -e/2..e/2, every 4th triclinic box at the extreme skew |b_x| = a_x/2, |c_x| = a_x/2, |c_y| = b_y/2
\* (equalities of the reduction conditions), and every way of requesting the box type that Topology::setBox has.
Mix(h) == (h * 2039 + 77) % 1000003
Edge(x) == 6 + (x % 11)
Off(x, half) == (x % (2 * half + 1)) - half
Pm(bit, v) == IF bit % 2 = 0 THEN v ELSE -v
GenBox(h2, h3, tric) ==
  LET ax == Edge(h2)
      by == Edge(h2 \div 11)
      cz == Edge(h2 \div 121)
      ext == (h2 \div 1331) % 4 = 0
  IN IF ~tric THEN TriBox(ax, 0, by, 0, 0, cz)
     ELSE IF ext THEN TriBox(ax, Pm(h3, ax \div 2), by, Pm(h3 \div 2, ax \div 2), Pm(h3 \div 4, by \div 2), cz)
     ELSE TriBox(ax, Off(h3, ax \div 2), by, Off(h3 \div 17, ax \div 2), Off(h3 \div 289, by \div 2), cz)
Rows(B) == <<B.a[1], B.b[1], B.c[1], B.a[2], B.b[2], B.c[2], B.a[3], B.b[3], B.c[3]>>

\* w is THE shortest image of itself, and (triclinic) below half the shortest box height --
\* the class for which C02 claims BCShortestConnection exact
Regular(B, typ, w) ==
  LET mi == SpecMI(B, w)
  IN mi.cert /\ mi.mins = {w} /\ (typ = "tric" => BelowHalfHeight(B, Norm2(w)))

Place(cc) ==
  LET h == HashU(cc.u)
      h2 == Mix(h)
      h3 == Mix(h2)
      G == GOf(h % 48)
      gu == ActU(G, cc.u)
      o == Offsets[((h \div 48) % Len(Offsets)) + 1]
      \* 0: no box; 1: a box but type "open" requested; 2: diagonal box; 3: triclinic box
      sel == (h \div 288) % 4
      B0 == IF sel = 0 THEN ZeroBox ELSE GenBox(h2, h3, sel = 3)
      rq == (h3 \div 8) % 3
      req0 == CASE sel = 0 -> "auto"
                [] sel = 1 -> "open"
                [] sel = 2 -> (IF rq = 0 THEN "auto" ELSE IF rq = 1 THEN "ortho" ELSE "tric")
                [] sel = 3 -> (IF rq = 0 THEN "auto" ELSE "tric")
      typ0 == EffType(B0, req0)
      reg == typ0 = "open" \/ (Reduced(B0) /\ \A i \in DOMAIN gu : Regular(B0, typ0, gu[i]))
      typ == IF reg THEN typ0 ELSE "open"
      req == IF reg THEN req0 ELSE "open"
      B == IF reg THEN B0 ELSE ZeroBox
      rel == RelPos(cc.k, gu)
      kk(i) == IF typ = "open" THEN Zero3 ELSE Shifts[((h3 \div 24 + 5 * i) % Len(Shifts)) + 1]
      pos == [i \in DOMAIN rel |-> IF typ = "open" THEN VAdd(o, rel[i]) ELSE Image(B, VAdd(o, rel[i]), kk(i))]
  IN [G |-> G, gu |-> gu, typ |-> typ, req |-> req, B |-> B, pos |-> pos]

\* connection vector of the pair pr (1-based bead numbers) as the specification defines it
ConnSpec(pl, pr) ==
  LET d == VSub(pl.pos[pr[2]], pl.pos[pr[1]])
  IN IF pl.typ = "open" THEN [cert |-> TRUE, mins |-> {d}] ELSE SpecMI(pl.B, d)

\* ---- invariants ---------------------------------------------------------------------------
DomainOK == OKOf(c.k, c.u)
InvChar == ph = 1 => /\ CharOf(c.k, c.u, GradsOf(c.k, c.u))
                     /\ EulerOf(c.k, c.u, GradsOf(c.k, c.u))
\* all 48 group elements on every CovThin-th geometry (by hash), otherwise the three generators
\* (cyclic permutation, transposition, one reflection) and the element used for the exported placement
Generators == {GOf(1), GOf(5), GOf(6)}
InvCov == ph = 1 =>
  LET g0 == GradsOf(c.k, c.u)
      x0 == ValsOf(c.k, c.u)
      h == HashU(c.u)
      GS == IF (h \div 7) % CovThin = 0 THEN O48 ELSE Generators \cup {GOf(h % 48)}
  IN \A G \in GS : /\ OKOf(c.k, ActU(G, c.u))
                   /\ CovGrads(c.k, c.u, g0, G) /\ CovVals(c.k, c.u, x0, G)
InvRev == ph = 1 => RevOK(c.k, c.u)
GrJ(g) == [m |-> g.m, r |-> g.r, v |-> g.v]
InvPlace == ph = 1 =>
  LET pl == Place(c)
      prs == ConnPairs(c.k)
  IN /\ \A n \in DOMAIN prs :
          LET cs == ConnSpec(pl, prs[n])
              d == VSub(pl.pos[prs[n][2]], pl.pos[prs[n][1]])
          IN /\ cs.cert /\ cs.mins = {pl.gu[n]}
             /\ AlgoMI(pl.B, pl.typ, d) = pl.gu[n]
             \* translating all beads by any lattice vector changes nothing
             /\ \A t \in {<<1, 2, 3>>, <<-17, 0, 5>>} :
                  VSub(VAdd(pl.pos[prs[n][2]], t), VAdd(pl.pos[prs[n][1]], t)) = d
     \* Vector: the placement with the expected integer right-hand sides, one JSON line per geometry
     /\ Emit => PrintT(ToJson([k |-> c.k, p |-> pl.pos, box |-> Rows(pl.B), typ |-> pl.typ, req |-> pl.req,
                               vals |-> ValsOf(c.k, pl.gu), g |-> GradsOf(c.k, pl.gu), u |-> pl.gu]))
=============================================================================
