---- MODULE MCGeomThorough ----
EXTENDS DerivGeom, IOUtils
MCSlice == atoi(IOEnv.C07_SLICE)
====
