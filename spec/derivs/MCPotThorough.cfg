SPECIFICATION Spec
CONSTANTS
  C12Set <- MCC12
  C6Set <- MCC6
  ASet <- MCA
  MSet <- MCM
  J0Set <- MCJ0
  Ranges <- MCRanges
  PMax = 7
  SplCfgs <- MCSplCfgs
  LamSeeds = {0, 1, 2, 3, 4, 5, 6, 7, 8, 9, 99}
  DecCfgs <- MCDec
  BigTab <- MCBig
  Hyper <- MCHyper
  Emit = TRUE
INVARIANTS InvLJ InvEdges InvTab VectorLJ InvSpl VectorSpl
CHECK_DEADLOCK FALSE
