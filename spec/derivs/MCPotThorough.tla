---- MODULE MCPotThorough ----
EXTENDS PotVec
MCC12 == {0, 1, 3, 7}
MCC6 == {0, 2, -1, 5}
MCA == {-2, 1, 3}
MCM == {-8, -4, 0, 4, 8, 12}
MCJ0 == {1, 2, 3, 4}
\* [min, cut] in half units (r = P/2)
MCRanges == {<<1, 4>>, <<2, 5>>, <<3, 3>>, <<1, 6>>}
SC(ni, m, xmin, cut8) == [NI |-> ni, M |-> m, xmin |-> xmin, cut8 |-> cut8]
MCSplCfgs == {SC(4, 4, 0, 8), SC(4, 4, 2, 12), SC(4, 4, 4, 8), SC(8, 4, 0, 8), SC(8, 4, 9, 16), SC(8, 2, 4, 8),
              SC(5, 4, 0, 12), SC(5, 4, 2, 8), SC(16, 4, 0, 16), SC(16, 4, 22, 8), SC(8, 4, 16, 8), SC(6, 2, 3, 12),
              SC(10, 4, 5, 8), SC(8, 1, 1, 8), SC(12, 2, 8, 24)}
====
