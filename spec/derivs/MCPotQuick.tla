---- MODULE MCPotQuick ----
EXTENDS PotVec
MCC12 == {0, 1, 3}
MCC6 == {0, 2, -1}
MCA == {-2, 0, 3}
MCM == {-4, 0, 4, 8}
MCJ0 == {0, 1, 2, 3}
\* [min, cut] in half units (r = P/2)
MCRanges == {<<1, 4>>, <<2, 5>>}
SC(ni, m, xmin, cut8) == [NI |-> ni, M |-> m, xmin |-> xmin, cut8 |-> cut8]
MCSplCfgs == {SC(4, 4, 0, 8), SC(4, 4, 2, 12), SC(4, 4, 4, 8), SC(8, 4, 0, 8), SC(8, 4, 9, 16), SC(8, 2, 4, 8),
              SC(5, 4, 0, 12), SC(5, 4, 2, 8)}
\* decimal lattice r = P/10: <<fn, lam (c12, c6, A, B/ln2, 10 r0), 10 min, 10 cut, pmax>>
MCDec == { <<"lj126", <<3, 2, 0, 0, 0>>, 3, 12, 14>>, <<"lj126", <<1, -1, 0, 0, 0>>, 2, 9, 11>>,
           <<"ljg", <<1, 2, 3, 100, 5>>, 3, 12, 14>>, <<"ljg", <<0, 1, -2, -100, 7>>, 2, 13, 14>> }
\* one table of 131 073 rows, r = P/4096 from 0.5 to 32.5
MCBig == { << <<3, 2, 0, 0, 0>>, 2048, 133120 >> }
\* on and around the coordinate hyperplanes: negative c12, negative r0, everything zero, one parameter alone
MCHyper == { <<"ljg", <<-1, 2, 3, 4, 1>>>>, <<"ljg", <<1, 2, 3, 4, -1>>>>, <<"ljg", <<0, 0, 0, 0, 0>>>>,
             <<"ljg", <<0, 0, 0, 4, 1>>>>, <<"ljg", <<0, 0, 3, 0, 0>>>>, <<"ljg", <<0, 0, 0, 0, 2>>>>,
             <<"ljg", <<-1, -1, -2, -4, -1>>>>, <<"lj126", <<-1, 2, 0, 0, 0>>>>, <<"lj126", <<0, 0, 0, 0, 0>>>> }
====
