SPECIFICATION Spec
CONSTANTS
  MB = 2
  MA = 1
  MD = 1
  Thin = 4
  CovThin = 1
  Slice <- MCSlice
  Emit = TRUE
INVARIANTS DomainOK InvChar InvCov InvRev InvPlace
CHECK_DEADLOCK FALSE
