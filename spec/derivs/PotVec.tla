------------------------------- MODULE PotVec -------------------------------
(* Mode L for C07 (potential functions): one state per scenario
     lj126 / ljg : (parameter vector on the log-lattice, [min, cut]); all r = P/2, P = 1..PMax
     cbspl       : (NI knot intervals, M sub-lattice points per interval, min, coefficient vector);
                   all r = X dr / M, X = 0..NI M + 2
   TLC checks per scenario (ph = 1) that the symbolically differentiated potential and the
   transcription of the code's closed forms agree when evaluated on the lattice (InvLJ), that the
   matrix form of the B-spline basis is the Cox-de Boor basis and that the parameter derivative of the
   linear form is the basis function (InvSpl), and prints the expected exact numbers.              *)
EXTENDS PotFn, Json

CONSTANTS C12Set, C6Set, ASet, MSet, J0Set, Ranges, PMax, SplCfgs, LamSeeds, Emit
VARIABLES c, ph
vars == <<c, ph>>

LamOf(s, n) == [k \in 1..n |-> ((k * k * 7 + s * 13 + k * s * 5) % 11) - 3]

Init == /\ ph = 0
        /\ \/ \E c12 \in C12Set, c6 \in C6Set, rg \in Ranges :
                c = [fn |-> "lj126", lam |-> <<c12, c6, 0, 0, 0>>, mn |-> rg[1], cut |-> rg[2]]
           \/ \E c12 \in C12Set, c6 \in C6Set, a \in ASet, m \in MSet, j0 \in J0Set, rg \in Ranges :
                c = [fn |-> "ljg", lam |-> <<c12, c6, a, m, j0>>, mn |-> rg[1], cut |-> rg[2]]
           \/ \E sc \in SplCfgs, s \in LamSeeds :
                c = [fn |-> "cbspl", cfg |-> sc, lam |-> LamOf(s, sc.NI + 3)]
Next == ph = 0 /\ ph' = 1 /\ UNCHANGED c
Spec == Init /\ [][Next]_vars

IsLJ == c.fn \in {"lj126", "ljg"}
Pt(P) == [lam |-> c.lam, P |-> P]
Zone(P) == IF P < c.mn THEN "below" ELSE IF P > c.cut THEN "above" ELSE "in"
NP == NParam(c.fn)

\* ---- LJ / LJG ---------------------------------------------------------------------------
InvLJ == (ph = 1 /\ IsLJ) =>
  \A P \in 1..PMax :
    /\ OnLattice(Pt(P))
    /\ Covered(FOf(c.fn))
    /\ \A i \in 0..(NP - 1) :
         /\ EvalEq(SpecDF(c.fn, i), AlgoDF(c.fn, i), Pt(P))
         /\ \A j \in 0..(NP - 1) :
              /\ EvalEq(SpecD2F(c.fn, i, j), AlgoD2F(c.fn, i, j), Pt(P))
              /\ EvalEq(SpecD2F(c.fn, i, j), SpecD2F(c.fn, j, i), Pt(P))

\* expected numbers at r = P/2: the formula inside [min, cut] (also exported for r < min, where the
\* property does not quantify: the check accepts the formula or all-zero there), zero beyond the cut-off
PointLJ(P) ==
  LET z == Zone(P)
      ev(p) == IF z = "above" THEN << >> ELSE Eval(p, Pt(P))
  IN [P |-> P, zone |-> z, F |-> ev(FOf(c.fn)),
      DF |-> [i \in 1..NP |-> ev(SpecDF(c.fn, i - 1))],
      D2F |-> [i \in 1..NP |-> [j \in 1..NP |-> ev(SpecD2F(c.fn, i - 1, j - 1))]]]
\* SavePotTab(file, step): rows at min, min + step, .., cut
TabStep == IF (c.cut - c.mn) % 2 = 0 THEN 2 ELSE 1
TabRows(lo, hi, st) == [n \in 1..((hi - lo) \div st + 1) |->
                          LET P == lo + (n - 1) * st
                          IN [P |-> P, zone |-> Zone(P), F |-> IF Zone(P) = "above" THEN << >> ELSE Eval(FOf(c.fn), Pt(P))]]
VectorLJ == (Emit /\ ph = 1 /\ IsLJ) =>
  PrintT(ToJson([fn |-> c.fn, lam |-> c.lam, mn |-> c.mn, cut |-> c.cut,
                 pts |-> [P \in 1..PMax |-> PointLJ(P)],
                 tab |-> [step |-> TabStep, rows |-> TabRows(c.mn, c.cut, TabStep)],
                 tab2 |-> [step |-> 1, lo |-> 1, hi |-> PMax, rows |-> TabRows(1, PMax, 1)]]))

\* ---- CBSPL ------------------------------------------------------------------------------
XMax == XCut(c.cfg) + 2
InvSpl == (ph = 1 /\ c.fn = "cbspl") =>
  /\ BasisOK(c.cfg)
  /\ NOpt(c.cfg) >= 1
  \* "knots with k dr <= min are excluded", at most NI of them
  /\ Nexcl(c.cfg) = Min2(Cardinality({k \in 0..(c.cfg.NI + 2) : k * c.cfg.M <= c.cfg.xmin}), c.cfg.NI)
  \* derivative of the linear form with respect to coefficient k = the basis function of k
  /\ \A X \in 0..XMax : \A i \in 0..(NOpt(c.cfg) - 1) :
       SpecDFSpl(c.cfg, c.lam, i, X) = IF X > XCut(c.cfg) THEN 0 ELSE SpecBasis(c.cfg, i + Nexcl(c.cfg), X)
  \* the extrapolation leaves the optimised coefficients alone and is linear with non-positive slope
  /\ LET x == Extrapolated(c.cfg, c.lam)
         ne == Nexcl(c.cfg)
     IN /\ \A k \in (ne + 1)..Len(c.lam) : x[k] = c.lam[k]
        /\ \A k \in 1..ne : x[k] - x[k + 1] >= 0 /\ x[k] - x[k + 1] = x[ne] - x[ne + 1]

PointSpl(X) ==
  [X |-> X, F |-> SpecF(c.cfg, c.lam, X),
   DF |-> [i \in 1..NOpt(c.cfg) |-> SpecDFSpl(c.cfg, c.lam, i - 1, X)],
   Fb |-> [i \in 1..NOpt(c.cfg) |-> SpecF(c.cfg, Bump(c.lam, i - 1 + Nexcl(c.cfg)), X)]]
SplStep == IF (XCut(c.cfg) - c.cfg.xmin) % c.cfg.M = 0 THEN c.cfg.M
           ELSE IF (XCut(c.cfg) - c.cfg.xmin) % 2 = 0 THEN 2 ELSE 1
VectorSpl == (Emit /\ ph = 1 /\ c.fn = "cbspl") =>
  LET x == Extrapolated(c.cfg, c.lam)
      st == SplStep
      lo == c.cfg.xmin
  IN PrintT(ToJson([fn |-> "cbspl", NI |-> c.cfg.NI, M |-> c.cfg.M, xmin |-> c.cfg.xmin, cut8 |-> c.cfg.cut8,
                    lam |-> c.lam, nexcl |-> Nexcl(c.cfg), nopt |-> NOpt(c.cfg), den |-> BasisDen(c.cfg),
                    pts |-> [n \in 1..(XMax + 1) |-> PointSpl(n - 1)],
                    ext |-> x,
                    tab |-> [step |-> st,
                             rows |-> [n \in 1..((XCut(c.cfg) - lo) \div st + 1) |->
                                         [X |-> lo + (n - 1) * st, F |-> SpecF(c.cfg, x, lo + (n - 1) * st)]]]]))
=============================================================================
