------------------------------- MODULE PotVec -------------------------------
(* Mode L for C07 (potential functions): one state per scenario
     lj126 / ljg : (parameter vector on the log-lattice, [min, cut], lattice constant Q); all r = P/Q, P in 1..PMax
                   Q = 2  the dyadic lattice (every grid value exact in a double)
                   Q = 10 decimal r and decimal table steps (the code's grid loops accumulate round-off)
                   Q = 4096 with a 131 073-row table (LJ 12-6 only, sampled rows)
     cbspl       : (NI knot intervals, M sub-lattice points per interval, min, coefficient vector);
                   all r = X dr / M, X = 0..NI M + 2
   TLC checks per scenario (ph = 1) that the symbolically differentiated potential and the
   transcription of the code's closed forms agree when evaluated on the lattice (InvLJ), that the
   matrix form of the B-spline basis is the Cox-de Boor basis and that the parameter derivative of the
   linear form is the basis function (InvSpl), and prints the expected exact numbers, including
   the tables SavePotTab has to write (InvTab: every admitted table is the function on its grid)
   and the parameter files of SaveParam / setParam(file).                                        *)
EXTENDS PotFn, Json

CONSTANTS C12Set, C6Set, ASet, MSet, J0Set, Ranges, PMax, SplCfgs, LamSeeds, DecCfgs, BigTab, Hyper, Emit
VARIABLES c, ph
vars == <<c, ph>>

\* coefficient vectors of the spline scenarios; seed 99 = all coefficients exactly zero
LamOf(s, n) == [k \in 1..n |-> IF s = 99 THEN 0 ELSE ((k * k * 7 + s * 13 + k * s * 5) % 11) - 3]
LJ(fn, lam, mn, cut, Q, pmax, big) == [fn |-> fn, lam |-> lam, mn |-> mn, cut |-> cut, Q |-> Q, pmax |-> pmax, big |-> big]

Init == /\ ph = 0
        /\ \/ \E c12 \in C12Set, c6 \in C6Set, rg \in Ranges :
                c = LJ("lj126", <<c12, c6, 0, 0, 0>>, rg[1], rg[2], 2, PMax, FALSE)
           \/ \E c12 \in C12Set, c6 \in C6Set, a \in ASet, m \in MSet, j0 \in J0Set, rg \in Ranges :
                c = LJ("ljg", <<c12, c6, a, m, j0>>, rg[1], rg[2], 2, PMax, FALSE)
           \* further parameter vectors on and around the coordinate hyperplanes: Hyper = set of <<fn, lam>>
           \/ \E hy \in Hyper, rg \in Ranges : c = LJ(hy[1], hy[2], rg[1], rg[2], 2, PMax, FALSE)
           \* decimal lattice: DecCfgs = set of <<fn, lam, mn, cut, pmax>> with r = P/10
           \/ \E d \in DecCfgs : c = LJ(d[1], d[2], d[3], d[4], 10, d[5], FALSE)
           \* one very long table: BigTab = set of <<lam, mn, cut>> with r = P/4096
           \/ \E b \in BigTab : c = LJ("lj126", b[1], b[2], b[3], 4096, 4, TRUE)
           \/ \E sc \in SplCfgs, s \in LamSeeds :
                c = [fn |-> "cbspl", cfg |-> sc, lam |-> LamOf(s, sc.NI + 3)]
Next == ph = 0 /\ ph' = 1 /\ UNCHANGED c
Spec == Init /\ [][Next]_vars

\* vacuity guard for the parameter lattice: every parameter takes the value exactly 0, a positive and a
\* negative value (closed forms that special-case a zero parameter, or are only right for one sign, must meet it)
ParamVals(k) == (CASE k = 1 -> C12Set [] k = 2 -> C6Set [] k = 3 -> ASet [] k = 4 -> MSet [] k = 5 -> J0Set)
                \cup {hy[2][k] : hy \in {h \in Hyper : h[1] = "ljg"}}
ASSUME \A k \in 1..5 : /\ 0 \in ParamVals(k) /\ (\E x \in ParamVals(k) : x > 0) /\ (\E x \in ParamVals(k) : x < 0)
ASSUME 99 \in LamSeeds

IsLJ == c.fn \in {"lj126", "ljg"}
DPOf == IF c.fn = "lj126" THEN 0 ELSE 4
Pt(P) == [lam |-> c.lam, P |-> P, Q |-> c.Q, DP |-> DPOf]
Zone(P) == IF P < c.mn THEN "below" ELSE IF P > c.cut THEN "above" ELSE "in"
NP == NParam(c.fn)
\* evaluation points: 1..pmax, and for the long table a few points around both ends
Points == IF c.big THEN {c.mn - 1, c.mn, c.mn + 1, c.cut - 1, c.cut, c.cut + 1} ELSE 1..c.pmax
PointSeq == LET RECURSIVE S(_, _)
                S(lo, hi) == IF lo > hi THEN << >> ELSE (IF lo \in Points THEN <<lo>> ELSE << >>) \o S(lo + 1, hi)
            IN IF c.big THEN <<c.mn - 1, c.mn, c.mn + 1, c.cut - 1, c.cut, c.cut + 1>> ELSE S(1, c.pmax)

\* ---- LJ / LJG ---------------------------------------------------------------------------
InvLJ == (ph = 1 /\ IsLJ) =>
  \A P \in Points :
    /\ OnLattice(Pt(P))
    /\ Covered(FOf(c.fn), Pt(P))
    /\ \A i \in 0..(NP - 1) :
         /\ EvalEq(SpecDF(c.fn, i), AlgoDF(c.fn, i), Pt(P))
         /\ \A j \in 0..(NP - 1) :
              /\ EvalEq(SpecD2F(c.fn, i, j), AlgoD2F(c.fn, i, j), Pt(P))
              /\ EvalEq(SpecD2F(c.fn, i, j), SpecD2F(c.fn, j, i), Pt(P))
\* the end points of the quantified range really occur among the evaluation points (vacuity guard)
InvEdges == (ph = 1 /\ IsLJ) => (c.mn \in Points /\ c.cut \in Points /\ \E P \in Points : P > c.cut)

\* expected numbers at r = P/Q: the formula inside [min, cut] (also exported for r < min, where the
\* property does not quantify: the check accepts the formula or all-zero there), zero beyond the cut-off
FAt(P) == IF Zone(P) = "above" THEN << >> ELSE Eval(FOf(c.fn), Pt(P))
PointLJ(P) ==
  LET z == Zone(P)
      ev(p) == IF z = "above" THEN << >> ELSE Eval(p, Pt(P))
  IN [P |-> P, zone |-> z, F |-> ev(FOf(c.fn)),
      DF |-> [i \in 1..NP |-> ev(SpecDF(c.fn, i - 1))],
      D2F |-> [i \in 1..NP |-> [j \in 1..NP |-> ev(SpecD2F(c.fn, i - 1, j - 1))]]]

\* SavePotTab(file, step[, lo, hi]): "the tabulated potential equals the function on the requested grid".
\* The requested grid runs from lo to hi in steps of st and ends AT hi.  When hi - lo is not a multiple of st the
\* documentation does not say whether the last regular point lo + k st < hi is part of the grid next to the
\* end point (the code leaves it out): both tables are admitted (DESIGN 7.1), nothing else is.
Row(P) == [P |-> P, zone |-> Zone(P), F |-> FAt(P)]
Regular(lo, hi, st) == {lo + k * st : k \in 0..((hi - lo) \div st)}
Grids(lo, hi, st) ==
  IF (hi - lo) % st = 0 THEN {Regular(lo, hi, st)}
  ELSE {Regular(lo, hi, st) \cup {hi}, (Regular(lo, hi, st) \ {lo + ((hi - lo) \div st) * st}) \cup {hi}}
SortedRows(S) == LET RECURSIVE R(_)
                     R(T) == IF T = {} THEN << >>
                             ELSE LET x == CHOOSE y \in T : \A z \in T : y <= z IN <<Row(x)>> \o R(T \ {x})
                 IN R(S)
Tab(call, lo, hi, st) == [call |-> call, step |-> st, lo |-> lo, hi |-> hi,
                          variants |-> {SortedRows(g) : g \in Grids(lo, hi, st)}]
\* a step that divides the range, and one that does not
DivStep(lo, hi) == IF (hi - lo) % 2 = 0 /\ hi - lo >= 2 THEN 2 ELSE 1
NonDivStep(lo, hi) == IF (hi - lo) % 2 = 1 THEN 2 ELSE IF (hi - lo) % 3 # 0 THEN 3 ELSE IF (hi - lo) % 4 # 0 THEN 4 ELSE 5
Tabs == IF c.big THEN << >>
        ELSE << Tab("tab", c.mn, c.cut, DivStep(c.mn, c.cut)),
                Tab("tab2", 1, c.pmax, 1),
                Tab("tab2", 1, c.pmax, NonDivStep(1, c.pmax)) >>
                \o (IF c.cut - c.mn >= 3 THEN << Tab("tab", c.mn, c.cut, NonDivStep(c.mn, c.cut)) >> ELSE << >>)
\* every admitted table: first row at lo, last row at hi, rows increasing, spacing st except before the end
InvTab == (ph = 1 /\ IsLJ) =>
  \A n \in DOMAIN Tabs : LET t == Tabs[n] IN
    /\ Cardinality(t.variants) = IF (t.hi - t.lo) % t.step = 0 THEN 1 ELSE 2
    /\ \A v \in t.variants :
         /\ v[1].P = t.lo /\ v[Len(v)].P = t.hi
         /\ \A k \in 1..(Len(v) - 1) : v[k].P < v[k + 1].P /\ v[k + 1].P - v[k].P <= 2 * t.step
         /\ \A k \in 1..(Len(v) - 2) : v[k + 1].P - v[k].P = t.step
         /\ \A k \in 1..Len(v) : v[k].F = FAt(v[k].P)
\* the long table: number of rows and every 8192nd row
BigRows == IF c.big THEN [n |-> c.cut - c.mn + 1, every |-> 8192,
                          rows |-> [k \in 1..((c.cut - c.mn) \div 8192 + 1) |-> Row(c.mn + (k - 1) * 8192)]]
           ELSE [n |-> 0, every |-> 1, rows |-> << >>]
VectorLJ == (Emit /\ ph = 1 /\ IsLJ) =>
  PrintT(ToJson([fn |-> c.fn, lam |-> c.lam, mn |-> c.mn, cut |-> c.cut, Q |-> c.Q, big |-> c.big,
                 pts |-> [n \in DOMAIN PointSeq |-> PointLJ(PointSeq[n])],
                 tabs |-> Tabs, bigtab |-> BigRows]))

\* ---- CBSPL ------------------------------------------------------------------------------
XMax == XCut(c.cfg) + 2
\* setParam(file): the last 4 coefficients are forced to zero
Reloaded(lam) == [k \in 1..Len(lam) |-> IF k > Len(lam) - 4 THEN 0 ELSE lam[k]]
InvSpl == (ph = 1 /\ c.fn = "cbspl") =>
  /\ BasisOK(c.cfg)
  /\ NOpt(c.cfg) >= 1
  \* "knots with k dr <= min are excluded", at most NI of them
  /\ Nexcl(c.cfg) = Min2(Cardinality({k \in 0..(c.cfg.NI + 2) : k * c.cfg.M <= c.cfg.xmin}), c.cfg.NI)
  \* derivative of the linear form with respect to coefficient k = the basis function of k
  /\ \A X \in 0..XMax : \A i \in 0..(NOpt(c.cfg) - 1) :
       SpecDFSpl(c.cfg, c.lam, i, X) = IF X > XCut(c.cfg) THEN 0 ELSE SpecBasis(c.cfg, i + Nexcl(c.cfg), X)
  \* the extrapolation leaves the optimised coefficients alone and is linear with non-positive slope
  /\ LET x == Extrapolated(c.cfg, c.lam)
         ne == Nexcl(c.cfg)
     IN /\ \A k \in (ne + 1)..Len(c.lam) : x[k] = c.lam[k]
        /\ \A k \in 1..ne : x[k] - x[k + 1] >= 0 /\ x[k] - x[k + 1] = x[ne] - x[ne + 1]
        \* extrapolating twice changes nothing (SaveParam after SavePotTab, second SavePotTab)
        /\ Extrapolated(c.cfg, x) = x
        \* with the last four coefficients zero the potential vanishes on the whole last knot interval
        /\ \A X \in (XCut(c.cfg) - c.cfg.M)..XCut(c.cfg) : SpecF(c.cfg, Reloaded(x), X) = 0

PointSpl(X) ==
  [X |-> X, F |-> SpecF(c.cfg, c.lam, X),
   DF |-> [i \in 1..NOpt(c.cfg) |-> SpecDFSpl(c.cfg, c.lam, i - 1, X)],
   Fb |-> [i \in 1..NOpt(c.cfg) |-> SpecF(c.cfg, Bump(c.lam, i - 1 + Nexcl(c.cfg)), X)],
   Fr |-> SpecF(c.cfg, Reloaded(Extrapolated(c.cfg, c.lam)), X)]
SplStep == IF (XCut(c.cfg) - c.cfg.xmin) % c.cfg.M = 0 THEN c.cfg.M
           ELSE IF (XCut(c.cfg) - c.cfg.xmin) % 2 = 0 THEN 2 ELSE 1
VectorSpl == (Emit /\ ph = 1 /\ c.fn = "cbspl") =>
  LET x == Extrapolated(c.cfg, c.lam)
      st == SplStep
      lo == c.cfg.xmin
  IN PrintT(ToJson([fn |-> "cbspl", NI |-> c.cfg.NI, M |-> c.cfg.M, xmin |-> c.cfg.xmin, cut8 |-> c.cfg.cut8,
                    lam |-> c.lam, nexcl |-> Nexcl(c.cfg), nopt |-> NOpt(c.cfg), den |-> BasisDen(c.cfg),
                    pts |-> [n \in 1..(XMax + 1) |-> PointSpl(n - 1)],
                    ext |-> x,
                    \* SaveParam: knot positions (in units of dr), extrapolated coefficients, flag 'o' for the
                    \* excluded knots and the three next to them, 'i' otherwise; setParam(file) of that file
                    flags |-> [k \in 1..Len(x) |-> IF k - 1 < Nexcl(c.cfg) + 3 THEN "o" ELSE "i"],
                    reload |-> Reloaded(x),
                    tab |-> [step |-> st,
                             rows |-> [n \in 1..((XCut(c.cfg) - lo) \div st + 1) |->
                                         [X |-> lo + (n - 1) * st, F |-> SpecF(c.cfg, x, lo + (n - 1) * st)]]]]))
=============================================================================
