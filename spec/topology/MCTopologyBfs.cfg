SPECIFICATION Spec
CONSTANTS
  ResNames = {"R1"}
  BeadKinds <- MCBeadKinds
  MolNames = {"M", "N"}
  Groups = {"g1", "g2"}
  Boxes <- MCBoxes
  Ranges <- MCRanges
  Source <- MCSource
  MaxBeads = 4
  Depth = 3
  Emit = TRUE
INVARIANTS MembershipConsistent EachBeadInOneMolecule InteractionsInRange ExclusionsInRange BoxTypeConsistent Leaf
CHECK_DEADLOCK FALSE
