SPECIFICATION Spec
CONSTANTS
  ResNames = {}
  BeadKinds <- MCCoreKinds
  MolNames = {"M"}
  Groups = {"g1", "g2"}
  Boxes <- MCCoreBoxes
  Ranges = {}
  Source <- MCSource
  MaxBeads = 3
  Depth = 5
  Emit = TRUE
INVARIANTS MembershipConsistent EachBeadInOneMolecule InteractionsInRange ExclusionsInRange BoxTypeConsistent Leaf
CHECK_DEADLOCK FALSE
