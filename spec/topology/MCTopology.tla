---- MODULE MCTopology ----
EXTENDS Topology
MCBeadKinds == { <<"x", "A", 0>>, <<"y", "B", 1>>, <<"z", "A", 1>> }
MCBoxes == { [v |-> <<12, 0, 10, 0, 0, 9>>, as |-> "auto"], [v |-> <<12, 6, 10, -6, 5, 13>>, as |-> "auto"],
             [v |-> <<0, 0, 0, 0, 0, 0>>, as |-> "auto"], [v |-> <<8, 0, 8, 0, 0, 8>>, as |-> "tric"] }
MCRanges == { [txt |-> "1", ids |-> {1}], [txt |-> "1:2", ids |-> {1, 2}], [txt |-> "2:3", ids |-> {2, 3}] }
\* the topology CopyTopologyData copies from: 2 residues, 3 beads, 2 molecules (bead 3 in none), triclinic box
MCSource == [res |-> <<"S1", "S2">>,
             beads |-> << [name |-> "p", type |-> "B", resnr |-> 0, mol |-> 1], [name |-> "q", type |-> "A", resnr |-> 1, mol |-> 2],
                          [name |-> "r", type |-> "B", resnr |-> 1, mol |-> 0] >>,
             mols |-> << [name |-> "SM", beads |-> <<1>>, bnames |-> <<"p">>], [name |-> "SN", beads |-> <<2>>, bnames |-> <<"q">>] >>,
             box |-> [set |-> TRUE, v |-> <<16, 8, 14, 8, 7, 15>>, t |-> "tric"]]
\* core alphabet for the deeper exhaustive run
MCCoreKinds == { <<"x", "A", 0>> }
MCCoreBoxes == { [v |-> <<12, 6, 10, -6, 5, 13>>, as |-> "auto"] }
====
