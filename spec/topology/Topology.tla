------------------------------ MODULE Topology ------------------------------
(* Mode H: csg::Topology as a state machine - the substrate of C01/C02/C03 (every mapping,
   minimum image and neighbour search asks the topology for beads, molecules, box, exclusions).

   Abstract state = what has been created since the last Cleanup:
     res    sequence of residue names                       (ids = position - 1)
     beads  sequence of [name, type, resnr, mol]            (mol = 0: in no molecule; else molecule id + 1)
     mols   sequence of [name, beads (bead ids + 1, in AddBead order), bnames]
     ias    sequence of [grp, beads]                         (bonded interactions in creation order)
     box    [set, v = <<ax,bx,by,cx,cy,cz>>, t = "open" | "ortho" | "tric"]   (set = FALSE: never set, matrix unspecified)
     ex     set of unordered bead pairs inserted into the exclusion list
   One action per public call; after every call the whole observable state (Obs) is recorded in the
   history variable and compared with the real object.  The invariant of the layer is by
   construction "every query equals the answer recomputed from what was created"; TLC additionally
   checks the internal consistency properties below.

   Decisions:  Cleanup "cleans up all the stored data": beads, molecules, residues, interactions,
   interaction groups and exclusions are gone and the box is open again.  CopyTopologyData copies
   residues, beads, molecules (with membership and bead names) AND the box with its type (the
   code's first statement is bc_->setBox(top->getBox())); bonded interactions and positions are
   not part of the statement (the source used here has no interactions).  RenameMolecules with a
   range beyond the number of molecules throws; the history ends there (partial effect unspecified). *)
EXTENDS Integers, Sequences, FiniteSets, TLC, Json

CONSTANTS ResNames, BeadKinds,      \* set of <<name, type, resnr>>
          MolNames, Groups,
          Boxes,                      \* set of [v |-> <<6 ints>>, as |-> "auto" | "ortho" | "tric" | "open"]
          Ranges,                     \* set of [txt |-> string, ids |-> set of 1-based molecule numbers]
          Source,                     \* [res, beads, mols, box] the topology CopyTopologyData copies from
          MaxBeads, Depth, Emit
VARIABLES res, beads, mols, ias, box, ex, dead, h
vars == <<res, beads, mols, ias, box, ex, dead, h>>

SeqRange(s) == {s[k] : k \in 1..Len(s)}
NoBox == [set |-> FALSE, v |-> <<0, 0, 0, 0, 0, 0>>, t |-> "open"]
\* autoDetectBoxType: zero matrix -> open, diagonal -> orthorhombic, else triclinic
AutoType(v) == IF v = <<0, 0, 0, 0, 0, 0>> THEN "open"
               ELSE IF v[2] = 0 /\ v[4] = 0 /\ v[5] = 0 THEN "ortho" ELSE "tric"
BoxOf(b) == [set |-> TRUE, v |-> b.v, t |-> IF b.as = "auto" THEN AutoType(b.v) ELSE b.as]

PairsOf(l) == {{l[a], l[b]} : a, b \in 1..Len(l)} \ {{l[a]} : a \in 1..Len(l)}
IsExcl(bs, e, i, j) == i # j /\ bs[i].mol = bs[j].mol /\ {i, j} \in e
\* group id = rank of the group's first appearance among the interactions (0-based)
FirstPos(ii, g) == CHOOSE k \in 1..Len(ii) : ii[k].grp = g /\ \A m \in 1..(k - 1) : ii[m].grp # g
GroupId(ii, g) == Cardinality({FirstPos(ii, g2) : g2 \in {ii[k].grp : k \in 1..Len(ii)}} \cap (1..(FirstPos(ii, g) - 1)))

Ids(n) == [k \in 1..n |-> k]
Obs(r, b, m, ii, bx, e) ==
  [res |-> r,
   beads |-> [k \in 1..Len(b) |-> <<b[k].name, b[k].type, b[k].resnr, b[k].mol>>],
   mols |-> [k \in 1..Len(m) |-> <<m[k].name, m[k].beads, m[k].bnames>>],
   nia |-> Len(ii),
   grp |-> [g \in Groups |-> SelectSeq(Ids(Len(ii)), LAMBDA k : ii[k].grp = g)],
   gid |-> [k \in 1..Len(ii) |-> GroupId(ii, ii[k].grp)],
   ialist |-> [k \in 1..Len(ii) |-> ii[k].beads],
   boxset |-> bx.set, box |-> bx.v, bt |-> bx.t,
   excl |-> {p \in (1..Len(b)) \X (1..Len(b)) : IsExcl(b, e, p[1], p[2])},
   sel |-> [s \in {"*", "A", "B"} |-> SelectSeq(Ids(Len(b)), LAMBDA k : s = "*" \/ b[k].type = s)]]

Init == /\ res = <<>> /\ beads = <<>> /\ mols = <<>> /\ ias = <<>> /\ box = NoBox /\ ex = {}
        /\ dead = FALSE /\ h = <<>>

Step(op, arg, r, b, m, ii, bx, e) ==
  /\ res' = r /\ beads' = b /\ mols' = m /\ ias' = ii /\ box' = bx /\ ex' = e
  /\ h' = Append(h, [a |-> op, arg |-> arg, obs |-> Obs(r, b, m, ii, bx, e)])
  /\ UNCHANGED dead

CreateResidue(n) == Step("res", <<n>>, Append(res, n), beads, mols, ias, box, ex)
CreateBead(k) ==
  /\ Len(beads) < MaxBeads
  /\ Step("bead", k, res, Append(beads, [name |-> k[1], type |-> k[2], resnr |-> k[3], mol |-> 0]), mols, ias, box, ex)
CreateMolecule(n) == Step("mol", <<n>>, res, beads, Append(mols, [name |-> n, beads |-> <<>>, bnames |-> <<>>]), ias, box, ex)
\* Molecule::AddBead(bead, name): the lowest bead that is in no molecule goes into the last molecule
AddBead ==
  /\ mols # <<>> /\ \E k \in 1..Len(beads) : beads[k].mol = 0
  /\ LET k == CHOOSE k \in 1..Len(beads) : beads[k].mol = 0 /\ \A j \in 1..(k - 1) : beads[j].mol # 0
         mi == Len(mols)
     IN Step("add", <<mi, k>>, res, [beads EXCEPT ![k].mol = mi],
             [mols EXCEPT ![mi].beads = Append(@, k), ![mi].bnames = Append(@, beads[k].name)], ias, box, ex)
\* AddBondedInteraction: bond / angle over the last 2 / 3 beads
AddIa(g, n) ==
  /\ Len(beads) >= n
  /\ LET bl == [q \in 1..n |-> Len(beads) - n + q]
     IN Step("ia", <<g, bl>>, res, beads, mols, Append(ias, [grp |-> g, beads |-> bl]), box, ex)
Rebuild == Step("rebuild", <<>>, res, beads, mols, ias, box, ex \cup UNION {PairsOf(ias[k].beads) : k \in 1..Len(ias)})
SetBox(b) == Step("box", <<b.v, b.as>>, res, beads, mols, ias, BoxOf(b), ex)
Cleanup == Step("cleanup", <<>>, <<>>, <<>>, <<>>, <<>>, NoBox, {})
Copy == Step("copy", <<>>, Source.res, Source.beads, Source.mols, <<>>, Source.box, {})
Rename(rg, n) ==
  IF \A i \in rg.ids : i <= Len(mols)
  THEN Step("rename", <<rg.txt, n>>, res, beads, [k \in 1..Len(mols) |-> IF k \in rg.ids THEN [mols[k] EXCEPT !.name = n] ELSE mols[k]],
            ias, box, ex)
  ELSE /\ h' = Append(h, [a |-> "rename", arg |-> <<rg.txt, n>>, obs |-> "throws"])
       /\ dead' = TRUE
       /\ UNCHANGED <<res, beads, mols, ias, box, ex>>

Next == /\ Len(h) < Depth /\ ~dead
        /\ \/ \E n \in ResNames : CreateResidue(n)
           \/ \E k \in BeadKinds : CreateBead(k)
           \/ \E n \in MolNames : CreateMolecule(n)
           \/ AddBead
           \/ \E g \in Groups, n \in {2, 3} : AddIa(g, n)
           \/ Rebuild
           \/ \E b \in Boxes : SetBox(b)
           \/ Cleanup
           \/ Copy
           \/ \E rg \in Ranges, n \in MolNames : Rename(rg, n)
Spec == Init /\ [][Next]_vars

\* ---- consistency of the abstract state (what "recomputed from what was created" relies on) ----
MembershipConsistent ==
  /\ \A k \in 1..Len(beads) : beads[k].mol # 0 => k \in SeqRange(mols[beads[k].mol].beads)
  /\ \A m \in 1..Len(mols) : \A q \in 1..Len(mols[m].beads) : beads[mols[m].beads[q]].mol = m
  /\ \A m \in 1..Len(mols) : Len(mols[m].beads) = Len(mols[m].bnames)
EachBeadInOneMolecule ==
  \A k \in 1..Len(beads) : Cardinality({m \in 1..Len(mols) : k \in SeqRange(mols[m].beads)}) <= 1
InteractionsInRange == \A k \in 1..Len(ias) : SeqRange(ias[k].beads) \subseteq 1..Len(beads)
ExclusionsInRange == \A p \in ex : p \subseteq 1..Len(beads)
BoxTypeConsistent == ~box.set => box.t = "open"
Leaf == (Emit /\ (Len(h) = Depth \/ dead)) => PrintT(ToJson([src |-> Source, h |-> h]))
=============================================================================
