SPECIFICATION Spec
CONSTANTS
  Kinds = {"hist"}
  Seed0 <- MCSeed0
  NSeeds <- MCNSeeds
  EntrySet <- MCEntries
  BSet <- MCBSet
  RSet <- MCRSet
  CSet <- MCCEntries
  Variant = "ok"
  Emit = TRUE
INVARIANTS
  HistLaws HistModes EmitRec
CHECK_DEADLOCK FALSE
