------------------------------- MODULE Fmatch -------------------------------
(* C06, csg_fmatch clauses, RELATIONAL reading (cf. spec/spline/SplineRel.tla, DESIGN 12.2): the spec supplies
   instances and states relations between observations of the real code; it contains no numeric oracle.

   Instance.  A coarse-grained trajectory of NF = K*b + rem frames of nb <= 6 beads of one type on the lattice
   (1/8) nm in a box so large that the minimum image is the direct vector; one non-bonded interaction with the
   spline grid  knot[k] = gmin + (k-1) gstep  (k = 1..n, lattice units), cut-off = knot[n]; knot values y[k]
   (integers) of a force function G that LIES IN the spline space of csg_fmatch: the natural cubic spline through
   (knot[k], y[k]).  The harness evaluates G with the real tools::CubicSpline (driver command `spl`) at the pair
   distances sqrt(d2)/8 listed here and writes the reference forces
        F_i = sum_{j : d2(i,j) < knot[n]^2}  G(r_ij) (p_i - p_j)/r_ij   (+ an integer noise vector if noisy).
   Runs of the real csg_fmatch on that trajectory (frames_per_block = b, constrainedLS = con):
        "full"    all NF frames                      -> K complete blocks, a trailing incomplete block is ignored
        "blk<k>"  --first-frame (k-1)b+1 --nframes b  -> exactly the frames of block k, one block
   Relations between the written force tables T(run)[i] (one per output grid point i):
     BLOCK INDEPENDENCE   K * T(full)[i] - sum_k T(blk<k>)[i] = 0
        (the program writes the average over the blocks done so far; each block's result must be what a run on
         that block's frames alone gives: nothing may survive from one block to the next)
     REPRODUCTION (noise-free instances)   T(run)[k] = c * y[k]  at the knots, for every run,
        c = the unit conversion the trajectory reader applies to forces (a constant of the real code).
   Well-posedness (Guard, checked by TLC on the lattice configuration, exact integer arithmetic): for every
   block  (i) no pair closer than knot[1] and none exactly at the cut-off;  (ii) every pair inside the cut-off has an
   end point whose in-range neighbour directions are linearly independent (so zero net forces force G = 0 at that
   distance: no cancellation);  (iii) every spline interval [knot[k], knot[k+1]) contains >= 2 distinct distances and
   n >= 4.  (ii)+(iii) imply that only G = 0 produces zero forces (a natural cubic spline with n knots that does not
   vanish on an interval has <= n+1 zeros < 2(n-1); one vanishing on an interval is c (x - knot)^3 next to it, which
   has no zero inside), i.e. the least-squares problem of every block has full rank.  Draws that fail are skipped. *)
EXTENDS Integers, Sequences, FiniteSets, TLC, Json, LsqRand, Lsq, CArith

(* Extension round (layouts, grids, options).  An instance now also has
     layout 0  one bead type, one pair interaction A-A                                  (as before)
     layout 1  two bead types (chain pattern A A B A A B ..), pair interactions A-A and A-B, none for B-B:
               two splines side by side in the least-squares matrix (column offsets matr_pos)
     layout 2  two-bead molecules with a bond (interaction bond1, excluded from the pair list) + pair interaction A-A;
               the bond force acts along the pair direction, d|r|/dr_i = (r_i - r_j)/r, so the generator needs no
               gradient code of its own
     gden      the spline grid lives on k/gden nm, gden = 8 (dyadic) or 10 (decimal steps 0.1 nm: grid generation and
               output loop accumulate round-off); positions stay on 1/8 nm, all comparisons cross-multiplied
     osub      out_step = step / osub (osub = 2: the table is written on a finer grid than the spline grid)
     tf        an extra run "tf": trajectory with forces F + known and --trj-force <known forces>; relation
               T(tf) = T(full)   (the program subtracts the forces of the second trajectory frame by frame)
   The well-posedness argument is per interaction class: (ii) makes every active pair's G_class(r) vanish when all net
   forces vanish, (iii) is demanded for every class separately.                                                      *)
CONSTANTS Seed0, NSeeds, Emit
VARIABLES ph, inst
vars == <<ph, inst>>

Origin == <<24, 24, 24>>
BoxL   == 64                \* box edge in lattice units (80 Angstrom)
PosDen == 8                 \* positions in 1/8 nm

(* ------------------------------ lattice geometry -------------------------------- *)
Sub(p, q)  == <<p[1] - q[1], p[2] - q[2], p[3] - q[3]>>
Add3(p, q) == <<p[1] + q[1], p[2] + q[2], p[3] + q[3]>>
N2(v)      == v[1] * v[1] + v[2] * v[2] + v[3] * v[3]
Cross(u, v) == <<u[2] * v[3] - u[3] * v[2], u[3] * v[1] - u[1] * v[3], u[1] * v[2] - u[2] * v[1]>>
Det3(u, v, w) == u[1] * (v[2] * w[3] - v[3] * w[2]) - u[2] * (v[1] * w[3] - v[3] * w[1]) + u[3] * (v[1] * w[2] - v[2] * w[1])

\* knot k in units 1/gden nm;  d = sqrt(d2)/8 nm  compared with a knot value kn/gden nm without roots or fractions
Knot(g, k)      == g.gmin + (k - 1) * g.gstep
GMax(g)         == Knot(g, g.n)
DistGE(g, d2, kn) == g.gden * g.gden * d2 >= PosDen * PosDen * kn * kn
DistLT(g, d2, kn) == g.gden * g.gden * d2 <  PosDen * PosDen * kn * kn
DistEQ(g, d2, kn) == g.gden * g.gden * d2 =  PosDen * PosDen * kn * kn
InIv(g, d2, lo, hi) == DistGE(g, d2, lo) /\ DistLT(g, d2, hi)

\* base vectors a >= b >= c >= 0 with length in [lo, hi) (knot units), as a sequence in a fixed order
VMax(g, hi) == (PosDen * hi) \div g.gden + 1
BaseSet(g, lo, hi) == {v \in (0..VMax(g, hi)) \X (0..VMax(g, hi)) \X (0..VMax(g, hi)) :
                          v[1] >= v[2] /\ v[2] >= v[3] /\ InIv(g, N2(v), lo, hi)}
RECURSIVE SeqOfVecs(_)
SeqOfVecs(S) == IF S = {} THEN <<>>
                ELSE LET m == CHOOSE a \in S : \A c \in S : a[1] * 100 + a[2] * 10 + a[3] <= c[1] * 100 + c[2] * 10 + c[3]
                     IN <<m>> \o SeqOfVecs(S \ {m})
Perms == << <<1, 2, 3>>, <<1, 3, 2>>, <<2, 1, 3>>, <<2, 3, 1>>, <<3, 1, 2>>, <<3, 2, 1>> >>
Oriented(v, pi, sg) == LET q == Perms[pi]
                       IN << (IF sg % 2 = 1 THEN -1 ELSE 1) * v[q[1]],
                             (IF (sg \div 2) % 2 = 1 THEN -1 ELSE 1) * v[q[2]],
                             (IF (sg \div 4) % 2 = 1 THEN -1 ELSE 1) * v[q[3]] >>

(* ------------------------------ beads, types, interaction classes ---------------- *)
NA(g) == g.nb - (g.nb \div 3)                       \* layout 1: number of A beads (chain pattern A A B)
\* bead id of chain position c (layout 1 numbers all A beads first, as the topology file lists them)
BeadOfChain(g, c) == IF g.layout = 1 THEN (IF c % 3 = 0 THEN NA(g) + (c \div 3) ELSE c - (c \div 3)) ELSE c
ChainOfBead(g, id) == CHOOSE c \in 1..g.nb : BeadOfChain(g, c) = id
TypeOf(g, id) == IF g.layout = 1 /\ id > NA(g) THEN "B" ELSE "A"
NInter(g) == IF g.layout = 0 THEN 1 ELSE 2
\* interaction class of the pair i < j: 0 = none
Cls(g, i, j) == CASE g.layout = 0 -> 1
                  [] g.layout = 1 -> IF TypeOf(g, i) = "A" /\ TypeOf(g, j) = "A" THEN 1
                                     ELSE IF TypeOf(g, i) # TypeOf(g, j) THEN 2 ELSE 0
                  [] g.layout = 2 -> IF (i + 1) \div 2 = (j + 1) \div 2 THEN 1 ELSE 2
IsBond(g, c) == g.layout = 2 /\ c = 1
InterName(g, c) == IF IsBond(g, c) THEN "bond1" ELSE IF g.layout = 1 /\ c = 2 THEN "A-B" ELSE "A-A"
\* a pair that contributes to the forces: a bond always, a non-bonded pair inside the cut-off (= last knot)
Active(g, pos, i, j) == LET lo == IF i < j THEN i ELSE j  hi == IF i < j THEN j ELSE i  c == Cls(g, lo, hi)
                        IN i # j /\ c > 0 /\ (IsBond(g, c) \/ DistLT(g, N2(Sub(pos[i], pos[j])), GMax(g)))

(* ------------------------------ the force function, exactly --------------------------- *)
(* The force function of an interaction is THE cubic spline through (x_k, y_k) with the boundary conditions of the
   interaction (natural: f'' = 0 at both ends; periodic: f, f', f'' equal at both ends).  Its second derivatives M_k are
   determined by the continuity of f' at the knots; TLC solves that system exactly (Cramer, Lsq.tla) and emits
   M = m2num / m2den (per squared grid unit).  The generator evaluates the spline from (y, M) with the real
   CubicSpline::setSplineData + Calculate, so it shares NO continuity/boundary code with the fit under test
   (Interpolate, AddBCToFitMatrix and the *_prime helpers are on the side of the code under test only).
   Knots x (integers in grid units, not necessarily equidistant: the last interval may be longer), values y.      *)
SplH(x, i) == x[i + 1] - x[i]
\* row of knot i (2 <= i <= n-1), multiplied by 6 h_{i-1} h_i:  coefficients of M_{i-1}, M_i, M_{i+1} and right-hand side
SplRowL(x, i) == SplH(x, i - 1) * SplH(x, i - 1) * SplH(x, i)
SplRowM(x, i) == 2 * (SplH(x, i - 1) + SplH(x, i)) * SplH(x, i - 1) * SplH(x, i)
SplRowR(x, i) == SplH(x, i) * SplH(x, i) * SplH(x, i - 1)
SplRhs(x, y, i) == 6 * (SplH(x, i - 1) * (y[i + 1] - y[i]) - SplH(x, i) * (y[i] - y[i - 1]))
\* natural: unknowns M_2..M_{n-1}
NatSystem(x, y) == LET n == Len(x) IN
  [M |-> [r \in 1..(n - 2) |-> [c \in 1..(n - 2) |->
             IF c = r - 1 THEN SplRowL(x, r + 1) ELSE IF c = r THEN SplRowM(x, r + 1)
             ELSE IF c = r + 1 THEN SplRowR(x, r + 1) ELSE 0]],
   rhs |-> [r \in 1..(n - 2) |-> SplRhs(x, y, r + 1)]]
\* periodic (y_n = y_1): unknowns M_1..M_{n-1}, M_n = M_1; row 1 is the junction (left interval n-1, right interval 1)
PerSystem(x, y) == LET n == Len(x)  hl == SplH(x, n - 1)  hr == SplH(x, 1) IN
  [M |-> [r \in 1..(n - 1) |-> [c \in 1..(n - 1) |->
             IF r = 1 THEN (IF c = 1 THEN 2 * (hl + hr) * hl * hr ELSE 0) + (IF c = n - 1 THEN hl * hl * hr ELSE 0)
                           + (IF c = 2 THEN hr * hr * hl ELSE 0)
             ELSE (IF c = r - 1 THEN SplRowL(x, r) ELSE 0) + (IF c = r THEN SplRowM(x, r) ELSE 0)
                  + (IF c = (IF r = n - 1 THEN 1 ELSE r + 1) THEN SplRowR(x, r) ELSE 0)]],
   rhs |-> [r \in 1..(n - 1) |-> IF r = 1 THEN 6 * (hl * (y[2] - y[1]) - hr * (y[1] - y[n - 1])) ELSE SplRhs(x, y, r)]]
RECURSIVE GcdSeq(_, _)
GcdSeq(v, i) == IF i = 0 THEN 0 ELSE Gcd(AbsI(v[i]), GcdSeq(v, i - 1))
SplineM2(x, y, periodic) ==
  LET n == Len(x)
      sy == IF periodic THEN PerSystem(x, y) ELSE NatSystem(x, y)
      s0 == Solve(sy.M, sy.rhs)
      g  == Gcd(AbsI(s0.den), GcdSeq(s0.num, Len(s0.num)))                  \* lowest terms (keeps the cross-multiplied law small)
      so == IF g > 1 THEN [num |-> [i \in 1..Len(s0.num) |-> s0.num[i] \div g], den |-> s0.den \div g] ELSE s0
  IN [num |-> IF periodic THEN so.num \o <<so.num[1]>> ELSE <<0>> \o so.num \o <<0>>, den |-> so.den]
\* the defining property, stated independently of how the system was assembled: f' is continuous at knot i, i.e.
\*   h_{i-1}/6 M_{i-1} + (h_{i-1}+h_i)/3 M_i + h_i/6 M_{i+1} = (y_{i+1}-y_i)/h_i - (y_i-y_{i-1})/h_{i-1}   (times 6 h h den)
SlopeContinuous(x, y, m2, il, i, ir) ==
  LET hl == x[il + 1] - x[il]  hr == x[ir] - x[ir - 1]
  IN hr * hl * (hl * m2.num[il] + 2 * (hl + hr) * m2.num[i] + hr * m2.num[ir])
       = 6 * m2.den * (hl * (y[ir] - y[ir - 1]) - hr * (y[il + 1] - y[il]))
SplineLaw(x, y, m2, periodic) ==
  LET n == Len(x)
  IN /\ m2.den # 0 /\ Len(m2.num) = n
     /\ \A i \in 2..(n - 1) : SlopeContinuous(x, y, m2, i - 1, i, i + 1)
     /\ IF periodic THEN /\ y[1] = y[n] /\ m2.num[1] = m2.num[n]
                         /\ SlopeContinuous(x, y, m2, n - 1, 1, 2)            \* junction: left piece n-1, right piece 1
                         /\ SumSeq(y) = 0                                     \* the sum-zero condition of csg_fmatch
        ELSE m2.num[1] = 0 /\ m2.num[n] = 0

(* ------------------------------ angles and dihedrals on the lattice ---------------------- *)
(* angular grid knots are given in degrees; cos(knot) is bracketed by rationals lo/100 <= cos <= hi/100 (exact where the
   cosine is rational).  All decisions "the variable lies strictly inside (knot_a, knot_b)" are made CONSERVATIVELY with
   these brackets in integer arithmetic: a site is counted only if it is certainly inside. *)
CosBr(deg) == CASE deg = 0 -> <<100, 100>> [] deg = 20 -> <<93, 94>> [] deg = 30 -> <<86, 87>> [] deg = 60 -> <<50, 50>>
                [] deg = 80 -> <<17, 18>> [] deg = 90 -> <<0, 0>> [] deg = 100 -> <<-18, -17>> [] deg = 120 -> <<-50, -50>>
                [] deg = 150 -> <<-87, -86>> [] deg = 160 -> <<-94, -93>> [] deg = 180 -> <<-100, -100>>
SgnI(v) == IF v > 0 THEN 1 ELSE IF v < 0 THEN -1 ELSE 0
\* d / sqrt(N) < p / 100   (N > 0)
CosLT(d, N, p) == IF d < 0 /\ p >= 0 THEN TRUE ELSE IF d >= 0 /\ p <= 0 THEN FALSE
                  ELSE IF d > 0 THEN d * d * 10000 < p * p * N ELSE d * d * 10000 > p * p * N
CosGT(d, N, p) == IF d > 0 /\ p <= 0 THEN TRUE ELSE IF d <= 0 /\ p >= 0 THEN FALSE
                  ELSE IF d > 0 THEN d * d * 10000 > p * p * N ELSE d * d * 10000 < p * p * N
AngGT(d, N, deg) == CosLT(d, N, CosBr(deg)[1])        \* theta = acos(d/sqrt N) certainly > deg
AngLT(d, N, deg) == CosGT(d, N, CosBr(deg)[2])        \* certainly < deg
\* signed angle phi = sg * acos(d / sqrt(N)), sg = +-1, against deg in -180..180 (non-degenerate: 0 < acos < 180)
PhiGT(sg, d, N, deg) == IF sg > 0 THEN (deg <= 0 \/ AngGT(d, N, deg)) ELSE (deg < 0 /\ AngLT(d, N, -deg))
PhiLT(sg, d, N, deg) == IF sg > 0 THEN (deg > 0 /\ AngLT(d, N, deg)) ELSE (deg >= 0 \/ AngGT(d, N, -deg))
\* one interaction instance: beads of molecule m -> [sg, d, N] with variable = sg * acos(d / sqrt N), as the real
\* IAngle / IDihedral define it (angle: vectors from the middle bead; dihedral: v_k = r_{k+1} - r_k, n1 = v1 x v2,
\* n2 = v2 x v3, sign = -1 iff v1 . n2 < 0)
AngSite(p) == LET v1 == Sub(p[1], p[2])  v2 == Sub(p[3], p[2])
              IN [sg |-> 1, d |-> v1[1] * v2[1] + v1[2] * v2[2] + v1[3] * v2[3], N |-> N2(v1) * N2(v2)]
DihSite(p) == LET v1 == Sub(p[2], p[1])  v2 == Sub(p[3], p[2])  v3 == Sub(p[4], p[3])
                  n1 == Cross(v1, v2)  n2 == Cross(v2, v3)
              IN [sg |-> IF v1[1] * n2[1] + v1[2] * n2[2] + v1[3] * n2[3] < 0 THEN -1 ELSE 1,
                  d |-> n1[1] * n2[1] + n1[2] * n2[2] + n1[3] * n2[3], N |-> N2(n1) * N2(n2)]
SiteOK(st) == st.N > 0 /\ st.d * st.d # st.N                   \* neither 0 nor 180 degrees: the gradient exists
SiteKey(st) == LET g == Gcd(st.d * st.d, st.N) IN <<st.sg, SgnI(st.d), (st.d * st.d) \div g, st.N \div g>>
SiteInside(st, lo, hi) == PhiGT(st.sg, st.d, st.N, lo) /\ PhiLT(st.sg, st.d, st.N, hi)

(* ------------------------------ building an instance ---------------------------- *)
DrawsPerFrame == 76
\* a chain: position c+1 = position c + a vector whose length lies in spline interval ((c + f) mod (n-1))
RECURSIVE Chain(_, _, _, _, _, _)
Chain(R, k0, g, f, i, acc) ==
  IF i >= g.nb THEN acc
  ELSE LET iv   == (i + f) % (g.n - 1)
           base == SeqOfVecs(BaseSet(g, Knot(g, iv + 1), Knot(g, iv + 2)))
           v    == Oriented(base[Draw(R, k0 + 3 * i, 1, Len(base))], Draw(R, k0 + 3 * i + 1, 1, 6), Draw(R, k0 + 3 * i + 2, 0, 7))
       IN Chain(R, k0, g, f, i + 1, Append(acc, Add3(acc[Len(acc)], v)))

ActivePairs(g, pos) == {pr \in (1..g.nb) \X (1..g.nb) : pr[1] < pr[2] /\ Active(g, pos, pr[1], pr[2])}
RECURSIVE PairSeq(_, _, _, _)
PairSeq(g, pos, i, j) == IF i >= g.nb THEN <<>>
                         ELSE IF j > g.nb THEN PairSeq(g, pos, i + 1, i + 2)
                         ELSE (IF Active(g, pos, i, j) THEN << <<i, j, N2(Sub(pos[i], pos[j])), Cls(g, i, j)>> >> ELSE <<>>)
                              \o PairSeq(g, pos, i, j + 1)

Nbrs(g, pos, i) == {j \in 1..g.nb : Active(g, pos, i, j)}
\* the directions from bead i to its active neighbours are linearly independent
Independent(g, pos, i) ==
  LET nb == Nbrs(g, pos, i)
  IN \/ Cardinality(nb) <= 1
     \/ /\ Cardinality(nb) = 2
        /\ \E j, l \in nb : j < l /\ Cross(Sub(pos[j], pos[i]), Sub(pos[l], pos[i])) # <<0, 0, 0>>
     \/ /\ Cardinality(nb) = 3
        /\ \E j, l, m \in nb : j < l /\ l < m /\ Det3(Sub(pos[j], pos[i]), Sub(pos[l], pos[i]), Sub(pos[m], pos[i])) # 0
FrameOK(g, fr) ==
  /\ \A pr \in ActivePairs(g, fr.pos) :
        LET d2 == N2(Sub(fr.pos[pr[1]], fr.pos[pr[2]]))
        IN /\ InIv(g, d2, Knot(g, 1), GMax(g))                     \* inside the spline grid (bonds too)
           /\ Independent(g, fr.pos, pr[1]) \/ Independent(g, fr.pos, pr[2])
  \* no non-bonded pair exactly at the cut-off (whether it counts would depend on rounding)
  /\ \A i, j \in 1..g.nb : i < j /\ Cls(g, i, j) > 0 => ~DistEQ(g, N2(Sub(fr.pos[i], fr.pos[j])), GMax(g))
  \* the box never matters
  /\ \A i \in 1..g.nb : \A c \in 1..3 : fr.pos[i][c] \in 0..BoxL
  /\ \A i, j \in 1..g.nb : \A c \in 1..3 : 2 * (fr.pos[i][c] - fr.pos[j][c]) < BoxL /\ 2 * (fr.pos[j][c] - fr.pos[i][c]) < BoxL
\* every frame has its own short streams (a single long one would recurse too deeply for TLC's stack): up to Tries
\* candidate configurations, the first one that satisfies FrameOK is taken (the last one if none does: Guard rejects)
Vec3(R, k, lo, hi) == <<Draw(R, k, lo, hi), Draw(R, k + 1, lo, hi), Draw(R, k + 2, lo, hi)>>
Candidate(s, g, f, t) ==
  LET R    == StreamN((s * 16 + f) * 8 + t, DrawsPerFrame + 4)
      cpos == Chain(R, 0, g, f, 1, <<Origin>>)
      pos  == [id \in 1..g.nb |-> cpos[ChainOfBead(g, id)]]
  IN [pos   |-> pos,
      noise |-> [i \in 1..g.nb |-> IF g.noisy THEN Vec3(R, 24 + 3 * (i - 1), -2, 2) ELSE <<0, 0, 0>>],
      known |-> [i \in 1..g.nb |-> IF g.tf THEN Vec3(R, 48 + 3 * (i - 1), -3, 3) ELSE <<0, 0, 0>>],
      pairs |-> PairSeq(g, pos, 1, 2)]
Tries == 8
RECURSIVE PickFrame(_, _, _, _)
PickFrame(s, g, f, t) == LET c == Candidate(s, g, f, t)
                         IN IF t >= Tries - 1 \/ FrameOK(g, c) THEN c ELSE PickFrame(s, g, f, t + 1)
Frame(s, g, f) == PickFrame(s, g, f, 0)

RunId(k) == IF k = 0 THEN "full" ELSE "blk" \o ToString(k)

Build(s) ==
  LET R0  == StreamN(s, 32)
      l0  == Draw(R0, 10, 0, 9)
      lay == IF l0 < 2 THEN 0 ELSE IF l0 < 4 THEN 1 ELSE 2             \* 6..9: angle / dihedral instances (BuildBonded)
      b   == IF lay = 0 THEN Draw(R0, 1, 1, 3) ELSE Draw(R0, 1, 2, 3)
      K   == Draw(R0, 2, 1, 3)
      rem == IF b > 1 THEN Draw(R0, 3, 0, 1) ELSE 0
      NF  == K * b + rem
      gd  == IF Draw(R0, 9, 0, 2) = 0 THEN 10 ELSE 8
      g   == [gden |-> gd, gmin |-> IF gd = 10 THEN Draw(R0, 4, 2, 4) ELSE Draw(R0, 4, 2, 3), gstep |-> 1,
              n |-> IF lay = 0 THEN Draw(R0, 5, 4, 5) ELSE 4,
              nb |-> IF lay = 0 THEN Draw(R0, 6, 5, 6) ELSE IF lay = 1 THEN Draw(R0, 6, 6, 8) ELSE 2 * Draw(R0, 6, 3, 4),
              layout |-> lay, noisy |-> Draw(R0, 7, 0, 2) = 0, tf |-> Draw(R0, 11, 0, 2) = 0]
      tf  == g.tf
      blk == [r \in 1..(K + 1) |-> IF r = 1 THEN [id |-> RunId(0), first |-> 1, nframes |-> NF, tf |-> FALSE]
                                   ELSE [id |-> RunId(r - 1), first |-> (r - 2) * b + 1, nframes |-> b, tf |-> FALSE]]
  IN [k |-> "fm", s |-> s, layout |-> lay, nb |-> g.nb, types |-> [i \in 1..g.nb |-> TypeOf(g, i)],
      gden |-> g.gden, gmin |-> g.gmin, gstep |-> g.gstep, n |-> g.n, osub |-> Draw(R0, 12, 1, 2),
      nout |-> (g.n - 1) * Draw(R0, 12, 1, 2) + 1,
      noisy |-> g.noisy, tf |-> tf,
      inter |-> [c \in 1..NInter(g) |->
                   LET x == [k \in 1..g.n |-> Knot(g, k)]
                       y == [k \in 1..g.n |-> Draw(R0, 12 + 6 * (c - 1) + k, -4, 8)]
                       m2 == SplineM2(x, y, FALSE)
                   IN [name |-> InterName(g, c), bond |-> IsBond(g, c), periodic |-> FALSE, x |-> x, y |-> y,
                       m2num |-> m2.num, m2den |-> m2.den]],
      b |-> b, K |-> K, rem |-> rem, con |-> Draw(R0, 8, 0, 1) = 1,
      frames |-> [f \in 1..NF |-> Frame(s, g, f)],
      runs |-> IF tf THEN Append(blk, [id |-> "tf", first |-> 1, nframes |-> NF, tf |-> TRUE]) ELSE blk,
      rels |-> << [c |-> "block-independence",
                   t |-> [r \in 1..(K + 1) |-> IF r = 1 THEN <<K, RunId(0)>> ELSE <<-1, RunId(r - 1)>>]] >>
               \o (IF tf THEN << [c |-> "trj-force", t |-> << <<1, "tf">>, <<-1, "full">> >>] >> ELSE <<>>)]

(* ------------------------------ well-posedness ----------------------------------- *)
BlockFrames(q, k) == ((k - 1) * q.b + 1)..(k * q.b)
(* ------------------------------ angle / dihedral instances ------------------------------- *)
(* layout 3: nm molecules of 3 beads, interaction angle1 (natural spline on 30..120 or 60..150 degrees, step 30);
   layout 4: nm molecules of 4 beads, interaction dih1, fmatch.periodic, grid -180..180 degrees, step 90 (5 knots, y_5 = y_1,
   sum of the knot values 0).  No other interaction: every bead belongs to one interaction instance, so zero net
   forces force G(var) = 0 at every instance whose gradient exists (SiteOK).                                      *)
MolBeads(lay) == IF lay = 3 THEN 3 ELSE 4
ALo(q) == q.kdeg[1]
AHi(q) == q.kdeg[Len(q.kdeg)]
MolPos(fr, q, m) == [k \in 1..q.mb |-> fr.pos[(m - 1) * q.mb + k]]
SiteOf(fr, q, m) == IF q.layout = 3 THEN AngSite(MolPos(fr, q, m)) ELSE DihSite(MolPos(fr, q, m))
RECURSIVE MolChain(_, _, _, _)
MolChain(R, k0, mb, acc) == IF Len(acc) >= mb THEN acc
                            ELSE MolChain(R, k0 + 3, mb, Append(acc, Add3(acc[Len(acc)], Vec3(R, k0, -2, 2))))
\* molecule m of frame f: first of MTries candidates whose variable exists and lies strictly inside the grid
MolCand(s, q, f, m, t) == LET R == StreamN(((s * 16 + f) * 8 + m) * 8 + t, 16)
                          IN MolChain(R, 1, q.mb, << <<8 + 12 * ((m - 1) % 4), 8 + 12 * ((m - 1) \div 4), 8 + 2 * f>> >>)
MolGood(q, p) == LET st == IF q.layout = 3 THEN AngSite(p) ELSE DihSite(p)
                 IN /\ \A i, j \in 1..q.mb : i < j => p[i] # p[j]
                    /\ SiteOK(st) /\ SiteInside(st, ALo(q), AHi(q))
                    /\ q.layout = 4 => N2(Cross(Sub(p[2], p[1]), Sub(p[3], p[2]))) > 0 /\ N2(Cross(Sub(p[3], p[2]), Sub(p[4], p[3]))) > 0
MTries == 6
RECURSIVE PickMol(_, _, _, _, _)
PickMol(s, q, f, m, t) == LET c == MolCand(s, q, f, m, t)
                          IN IF t >= MTries - 1 \/ MolGood(q, c) THEN c ELSE PickMol(s, q, f, m, t + 1)
RECURSIVE FlatMols(_, _, _, _)
FlatMols(s, q, f, m) == IF m > q.nm THEN <<>> ELSE PickMol(s, q, f, m, 0) \o FlatMols(s, q, f, m + 1)
BFrame(s, q, f) ==
  LET pos == FlatMols(s, q, f, 1)
      R   == StreamN((s * 16 + f) * 8 + 7, 8 + 6 * q.nb)
  IN [pos |-> pos,
      noise |-> [i \in 1..q.nb |-> IF q.noisy THEN Vec3(R, 3 * i, -2, 2) ELSE <<0, 0, 0>>],
      known |-> [i \in 1..q.nb |-> IF q.tf THEN Vec3(R, 3 * q.nb + 3 * i, -3, 3) ELSE <<0, 0, 0>>],
      pairs |-> <<>>]
BuildBonded(s, lay) ==
  LET R0  == StreamN(s, 32)
      b   == Draw(R0, 1, 1, 3)
      K   == Draw(R0, 2, 1, 3)
      rem == IF b > 1 THEN Draw(R0, 3, 0, 1) ELSE 0
      NF  == K * b + rem
      n   == IF lay = 3 THEN 4 ELSE 5
      nm  == IF lay = 3 THEN Draw(R0, 6, 3, 6) ELSE Draw(R0, 6, 4, 6)
      gv  == IF lay = 4 THEN (IF Draw(R0, 4, 0, 2) = 0 THEN 1 ELSE 2) ELSE Draw(R0, 4, 1, 2)
      \* knots in degrees; step of the options file; spline unit; knots in spline units (relative to the first one).
      \* dihedral variant 2: step 80 degrees does not divide 360, GenerateGrid puts the last knot at max = 180: the last
      \* interval is 120 degrees long (non-equidistant periodic grid)
      kdeg == IF lay = 3 THEN (IF gv = 1 THEN <<30, 60, 90, 120>> ELSE <<60, 90, 120, 150>>)
              ELSE (IF gv = 1 THEN <<-180, -90, 0, 90, 180>> ELSE <<-180, -100, -20, 60, 180>>)
      stepdeg == IF lay = 3 THEN 30 ELSE IF gv = 1 THEN 90 ELSE 80
      udeg == IF lay = 3 THEN 30 ELSE IF gv = 1 THEN 90 ELSE 40
      osub == Draw(R0, 12, 1, 2)
      q0  == [layout |-> lay, mb |-> MolBeads(lay), nm |-> nm, nb |-> nm * MolBeads(lay), kdeg |-> kdeg, n |-> n,
              noisy |-> Draw(R0, 7, 0, 2) = 0, tf |-> Draw(R0, 11, 0, 2) = 0]
      x   == [k \in 1..n |-> (kdeg[k] - kdeg[1]) \div udeg]
      y0  == [k \in 1..n |-> Draw(R0, 12 + k, -4, 8)]
      y   == IF lay = 3 THEN y0
             ELSE [k \in 1..n |-> IF k = n THEN y0[1] ELSE IF k = n - 1 THEN -(2 * y0[1] + y0[2] + y0[3]) ELSE y0[k]]
      m2  == SplineM2(x, y, lay = 4)
      blk == [r \in 1..(K + 1) |-> IF r = 1 THEN [id |-> RunId(0), first |-> 1, nframes |-> NF, tf |-> FALSE]
                                   ELSE [id |-> RunId(r - 1), first |-> (r - 2) * b + 1, nframes |-> b, tf |-> FALSE]]
  IN [k |-> "fm", s |-> s, layout |-> lay, nb |-> q0.nb, nm |-> nm, mb |-> q0.mb, types |-> [i \in 1..q0.nb |-> "A"],
      kdeg |-> kdeg, stepdeg |-> stepdeg, n |-> n, osub |-> osub, gden |-> 0, gmin |-> 0, gstep |-> 0,
      nout |-> ((kdeg[n] - kdeg[1]) * osub) \div stepdeg + 1,              \* output points min, min + out_step, .. <= max
      noisy |-> q0.noisy, tf |-> q0.tf,
      inter |-> << [name |-> IF lay = 3 THEN "angle1" ELSE "dih1", bond |-> FALSE, periodic |-> lay = 4,
                    x |-> x, y |-> y, m2num |-> m2.num, m2den |-> m2.den, udeg |-> udeg] >>,
      b |-> b, K |-> K, rem |-> rem, con |-> Draw(R0, 8, 0, 1) = 1,
      frames |-> [f \in 1..NF |-> BFrame(s, q0, f)],
      runs |-> IF q0.tf THEN Append(blk, [id |-> "tf", first |-> 1, nframes |-> NF, tf |-> TRUE]) ELSE blk,
      rels |-> << [c |-> "block-independence",
                   t |-> [r \in 1..(K + 1) |-> IF r = 1 THEN <<K, RunId(0)>> ELSE <<-1, RunId(r - 1)>>]] >>
               \o (IF q0.tf THEN << [c |-> "trj-force", t |-> << <<1, "tf">>, <<-1, "full">> >>] >> ELSE <<>>)]
\* guard: every instance exists and lies strictly inside the grid (all frames); per block every grid interval holds >= 2
\* distinct values strictly inside it
BGuard(q) == /\ \A f \in 1..Len(q.frames) : \A m \in 1..q.nm : MolGood(q, MolPos(q.frames[f], q, m))
             /\ q.n >= 4
             /\ \A k \in 1..q.K : \A iv \in 1..(q.n - 1) :
                   Cardinality(UNION {{SiteKey(SiteOf(q.frames[f], q, m)) :
                                          m \in {m \in 1..q.nm : SiteInside(SiteOf(q.frames[f], q, m), q.kdeg[iv], q.kdeg[iv + 1])}} :
                                      f \in BlockFrames(q, k)}) >= 2


Grid(q) == [gden |-> q.gden, gmin |-> q.gmin, gstep |-> q.gstep, n |-> q.n, nb |-> q.nb, layout |-> q.layout]
\* squared distances of the active pairs of class c in block k
Sites(q, k, c) == UNION {{q.frames[f].pairs[e][3] : e \in {e \in 1..Len(q.frames[f].pairs) : q.frames[f].pairs[e][4] = c}} :
                         f \in BlockFrames(q, k)}
BlockOK(q, k) ==
  LET g == Grid(q)
  IN /\ \A f \in BlockFrames(q, k) : FrameOK(g, q.frames[f])
     /\ q.n >= 4
     /\ \A c \in 1..NInter(g) : \A iv \in 1..(q.n - 1) :
           Cardinality({d2 \in Sites(q, k, c) : InIv(g, d2, Knot(g, iv), Knot(g, iv + 1))}) >= 2
\* the frames of an incomplete trailing block are read by the program too: they must be sane configurations as well
Guard(q) == IF q.layout >= 3 THEN BGuard(q) ELSE
            /\ \A k \in 1..q.K : BlockOK(q, k)
            /\ \A f \in 1..Len(q.frames) : FrameOK(Grid(q), q.frames[f])

(* ------------------------------ model --------------------------------------------- *)
Init == ph = 0 /\ \E s \in Seed0..(Seed0 + NSeeds - 1) : inst = [k |-> "seed", s |-> s]
Next == ph = 0 /\ ph' = 1
        /\ inst' = LET l0 == Draw(StreamN(inst.s, 32), 10, 0, 9)
                       q  == IF l0 \in {6, 7} THEN BuildBonded(inst.s, 3) ELSE IF l0 >= 8 THEN BuildBonded(inst.s, 4) ELSE Build(inst.s)
                   IN IF Guard(q) THEN q ELSE [k |-> "skip", s |-> inst.s]
Spec == Init /\ [][Next]_vars

IsInst == ph = 1 /\ inst.k = "fm"
FramesOf(run) == run.first..(run.first + run.nframes - 1)
RunIds == {inst.runs[r].id : r \in 1..Len(inst.runs)}

\* what the relations mean: the single-block runs see exactly the frames of their block, the blocks tile the frames the
\* full run turns into complete blocks; the trj-force run sees the same frames as the full run
RelWindows == IsInst => /\ Len(inst.runs) = inst.K + 1 + (IF inst.tf THEN 1 ELSE 0)
                        /\ Len(inst.frames) = inst.K * inst.b + inst.rem /\ inst.rem < inst.b
                        /\ FramesOf(inst.runs[1]) = 1..Len(inst.frames)
                        /\ \A k \in 1..inst.K : FramesOf(inst.runs[k + 1]) = BlockFrames(inst, k)
                        /\ UNION {BlockFrames(inst, k) : k \in 1..inst.K} = 1..(inst.K * inst.b)
                        /\ \A k, l \in 1..inst.K : k # l => BlockFrames(inst, k) \cap BlockFrames(inst, l) = {}
                        /\ inst.tf => FramesOf(inst.runs[Len(inst.runs)]) = FramesOf(inst.runs[1])
RECURSIVE SumCoef(_, _)
SumCoef(rel, i) == IF i = 0 THEN 0 ELSE rel[i][1] + SumCoef(rel, i - 1)
\* every relation is satisfied by a run-independent table (coefficients add up to zero) and names existing runs
RelCoefs   == IsInst => \A r \in 1..Len(inst.rels) :
                           /\ SumCoef(inst.rels[r].t, Len(inst.rels[r].t)) = 0
                           /\ \A e \in 1..Len(inst.rels[r].t) : inst.rels[r].t[e][2] \in RunIds
\* the pair lists handed to the generator are exactly the active pairs, with their squared distances and classes
PairLists  == (IsInst /\ inst.layout <= 2) => \A f \in 1..Len(inst.frames) :
                LET fr == inst.frames[f]  g == Grid(inst)
                IN /\ {<<fr.pairs[e][1], fr.pairs[e][2]>> : e \in 1..Len(fr.pairs)} = ActivePairs(g, fr.pos)
                   /\ \A e \in 1..Len(fr.pairs) : /\ fr.pairs[e][3] = N2(Sub(fr.pos[fr.pairs[e][1]], fr.pos[fr.pairs[e][2]]))
                                                  /\ fr.pairs[e][4] = Cls(g, fr.pairs[e][1], fr.pairs[e][2])
                                                  /\ fr.pairs[e][4] \in 1..Len(inst.inter)
\* consecutive chain positions are neighbours in the intended interval; bead numbering is a bijection; bonds join
\* the two beads of one molecule
ChainOK    == (IsInst /\ inst.layout <= 2) => LET g == Grid(inst) IN
                /\ {BeadOfChain(g, c) : c \in 1..inst.nb} = 1..inst.nb
                /\ \A f \in 1..Len(inst.frames) : \A c \in 1..(inst.nb - 1) :
                      LET d2 == N2(Sub(inst.frames[f].pos[BeadOfChain(g, c)], inst.frames[f].pos[BeadOfChain(g, c + 1)]))
                          iv == (c + f) % (inst.n - 1)
                      IN InIv(g, d2, Knot(g, iv + 1), Knot(g, iv + 2))
                /\ inst.layout = 2 => inst.nb % 2 = 0
GuardHolds == IsInst => Guard(inst)
\* the emitted second derivatives define the spline with the interaction's boundary conditions
SplineOK   == IsInst => \A c \in 1..Len(inst.inter) :
                 LET it == inst.inter[c]
                 IN SplineLaw(it.x, it.y, [num |-> it.m2num, den |-> it.m2den], it.periodic)
\* bonded-only instances: molecule layout
BondedOK   == (IsInst /\ inst.layout >= 3) => /\ inst.nb = inst.nm * inst.mb /\ Len(inst.inter) = 1
                                              /\ \A k \in 1..inst.n : inst.kdeg[k] = inst.kdeg[1] + inst.inter[1].x[k] * inst.inter[1].udeg
                                              /\ inst.kdeg[2] - inst.kdeg[1] = inst.stepdeg
                                              /\ \A f \in 1..Len(inst.frames) : Len(inst.frames[f].pos) = inst.nb
EmitRec    == (Emit /\ IsInst) => PrintT(ToJson(inst))
=============================================================================
