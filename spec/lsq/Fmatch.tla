------------------------------- MODULE Fmatch -------------------------------
(* C06, csg_fmatch clauses, RELATIONAL reading (cf. spec/spline/SplineRel.tla, DESIGN 12.2): the spec supplies
   instances and states relations between observations of the real code; it contains no numeric oracle.

   Instance.  A coarse-grained trajectory of NF = K*b + rem frames of nb <= 6 beads of one type on the lattice
   (1/8) nm in a box so large that the minimum image is the direct vector; one non-bonded interaction with the
   spline grid  knot[k] = gmin + (k-1) gstep  (k = 1..n, lattice units), cut-off = knot[n]; knot values y[k]
   (integers) of a force function G that LIES IN the spline space of csg_fmatch: the natural cubic spline through
   (knot[k], y[k]).  The harness evaluates G with the real tools::CubicSpline (driver command `spl`) at the pair
   distances sqrt(d2)/8 listed here and writes the reference forces
        F_i = sum_{j : d2(i,j) < knot[n]^2}  G(r_ij) (p_i - p_j)/r_ij   (+ an integer noise vector if noisy).
   Runs of the real csg_fmatch on that trajectory (frames_per_block = b, constrainedLS = con):
        "full"    all NF frames                      -> K complete blocks, a trailing incomplete block is ignored
        "blk<k>"  --first-frame (k-1)b+1 --nframes b  -> exactly the frames of block k, one block
   Relations between the written force tables T(run)[i] (one per output grid point i):
     BLOCK INDEPENDENCE   K * T(full)[i] - sum_k T(blk<k>)[i] = 0
        (the program writes the average over the blocks done so far; each block's result must be what a run on
         that block's frames alone gives: nothing may survive from one block to the next)
     REPRODUCTION (noise-free instances)   T(run)[k] = c * y[k]  at the knots, for every run,
        c = the unit conversion the trajectory reader applies to forces (a constant of the real code).
   Well-posedness (Guard, checked by TLC on the lattice configuration, exact integer arithmetic): for every
   block  (i) no pair closer than knot[1] and none exactly at the cut-off;  (ii) every pair inside the cut-off has an
   end point whose in-range neighbour directions are linearly independent (so zero net forces force G = 0 at that
   distance: no cancellation);  (iii) every spline interval [knot[k], knot[k+1]) contains >= 2 distinct distances and
   n >= 4.  (ii)+(iii) imply that only G = 0 produces zero forces (a natural cubic spline with n knots that does not
   vanish on an interval has <= n+1 zeros < 2(n-1); one vanishing on an interval is c (x - knot)^3 next to it, which
   has no zero inside), i.e. the least-squares problem of every block has full rank.  Draws that fail are skipped. *)
EXTENDS Integers, Sequences, FiniteSets, TLC, Json, LsqRand

(* Extension round (layouts, grids, options).  An instance now also has
     layout 0  one bead type, one pair interaction A-A                                  (as before)
     layout 1  two bead types (chain pattern A A B A A B ..), pair interactions A-A and A-B, none for B-B:
               two splines side by side in the least-squares matrix (column offsets matr_pos)
     layout 2  two-bead molecules with a bond (interaction bond1, excluded from the pair list) + pair interaction A-A;
               the bond force acts along the pair direction, d|r|/dr_i = (r_i - r_j)/r, so the generator needs no
               gradient code of its own
     gden      the spline grid lives on k/gden nm, gden = 8 (dyadic) or 10 (decimal steps 0.1 nm: grid generation and
               output loop accumulate round-off); positions stay on 1/8 nm, all comparisons cross-multiplied
     osub      out_step = step / osub (osub = 2: the table is written on a finer grid than the spline grid)
     tf        an extra run "tf": trajectory with forces F + known and --trj-force <known forces>; relation
               T(tf) = T(full)   (the program subtracts the forces of the second trajectory frame by frame)
   The well-posedness argument is per interaction class: (ii) makes every active pair's G_class(r) vanish when all net
   forces vanish, (iii) is demanded for every class separately.                                                      *)
CONSTANTS Seed0, NSeeds, Emit
VARIABLES ph, inst
vars == <<ph, inst>>

Origin == <<24, 24, 24>>
BoxL   == 64                \* box edge in lattice units (80 Angstrom)
PosDen == 8                 \* positions in 1/8 nm

(* ------------------------------ lattice geometry -------------------------------- *)
Sub(p, q)  == <<p[1] - q[1], p[2] - q[2], p[3] - q[3]>>
Add3(p, q) == <<p[1] + q[1], p[2] + q[2], p[3] + q[3]>>
N2(v)      == v[1] * v[1] + v[2] * v[2] + v[3] * v[3]
Cross(u, v) == <<u[2] * v[3] - u[3] * v[2], u[3] * v[1] - u[1] * v[3], u[1] * v[2] - u[2] * v[1]>>
Det3(u, v, w) == u[1] * (v[2] * w[3] - v[3] * w[2]) - u[2] * (v[1] * w[3] - v[3] * w[1]) + u[3] * (v[1] * w[2] - v[2] * w[1])

\* knot k in units 1/gden nm;  d = sqrt(d2)/8 nm  compared with a knot value kn/gden nm without roots or fractions
Knot(g, k)      == g.gmin + (k - 1) * g.gstep
GMax(g)         == Knot(g, g.n)
DistGE(g, d2, kn) == g.gden * g.gden * d2 >= PosDen * PosDen * kn * kn
DistLT(g, d2, kn) == g.gden * g.gden * d2 <  PosDen * PosDen * kn * kn
DistEQ(g, d2, kn) == g.gden * g.gden * d2 =  PosDen * PosDen * kn * kn
InIv(g, d2, lo, hi) == DistGE(g, d2, lo) /\ DistLT(g, d2, hi)

\* base vectors a >= b >= c >= 0 with length in [lo, hi) (knot units), as a sequence in a fixed order
VMax(g, hi) == (PosDen * hi) \div g.gden + 1
BaseSet(g, lo, hi) == {v \in (0..VMax(g, hi)) \X (0..VMax(g, hi)) \X (0..VMax(g, hi)) :
                          v[1] >= v[2] /\ v[2] >= v[3] /\ InIv(g, N2(v), lo, hi)}
RECURSIVE SeqOfVecs(_)
SeqOfVecs(S) == IF S = {} THEN <<>>
                ELSE LET m == CHOOSE a \in S : \A c \in S : a[1] * 100 + a[2] * 10 + a[3] <= c[1] * 100 + c[2] * 10 + c[3]
                     IN <<m>> \o SeqOfVecs(S \ {m})
Perms == << <<1, 2, 3>>, <<1, 3, 2>>, <<2, 1, 3>>, <<2, 3, 1>>, <<3, 1, 2>>, <<3, 2, 1>> >>
Oriented(v, pi, sg) == LET q == Perms[pi]
                       IN << (IF sg % 2 = 1 THEN -1 ELSE 1) * v[q[1]],
                             (IF (sg \div 2) % 2 = 1 THEN -1 ELSE 1) * v[q[2]],
                             (IF (sg \div 4) % 2 = 1 THEN -1 ELSE 1) * v[q[3]] >>

(* ------------------------------ beads, types, interaction classes ---------------- *)
NA(g) == g.nb - (g.nb \div 3)                       \* layout 1: number of A beads (chain pattern A A B)
\* bead id of chain position c (layout 1 numbers all A beads first, as the topology file lists them)
BeadOfChain(g, c) == IF g.layout = 1 THEN (IF c % 3 = 0 THEN NA(g) + (c \div 3) ELSE c - (c \div 3)) ELSE c
ChainOfBead(g, id) == CHOOSE c \in 1..g.nb : BeadOfChain(g, c) = id
TypeOf(g, id) == IF g.layout = 1 /\ id > NA(g) THEN "B" ELSE "A"
NInter(g) == IF g.layout = 0 THEN 1 ELSE 2
\* interaction class of the pair i < j: 0 = none
Cls(g, i, j) == CASE g.layout = 0 -> 1
                  [] g.layout = 1 -> IF TypeOf(g, i) = "A" /\ TypeOf(g, j) = "A" THEN 1
                                     ELSE IF TypeOf(g, i) # TypeOf(g, j) THEN 2 ELSE 0
                  [] g.layout = 2 -> IF (i + 1) \div 2 = (j + 1) \div 2 THEN 1 ELSE 2
IsBond(g, c) == g.layout = 2 /\ c = 1
InterName(g, c) == IF IsBond(g, c) THEN "bond1" ELSE IF g.layout = 1 /\ c = 2 THEN "A-B" ELSE "A-A"
\* a pair that contributes to the forces: a bond always, a non-bonded pair inside the cut-off (= last knot)
Active(g, pos, i, j) == LET lo == IF i < j THEN i ELSE j  hi == IF i < j THEN j ELSE i  c == Cls(g, lo, hi)
                        IN i # j /\ c > 0 /\ (IsBond(g, c) \/ DistLT(g, N2(Sub(pos[i], pos[j])), GMax(g)))

(* ------------------------------ building an instance ---------------------------- *)
DrawsPerFrame == 76
\* a chain: position c+1 = position c + a vector whose length lies in spline interval ((c + f) mod (n-1))
RECURSIVE Chain(_, _, _, _, _, _)
Chain(R, k0, g, f, i, acc) ==
  IF i >= g.nb THEN acc
  ELSE LET iv   == (i + f) % (g.n - 1)
           base == SeqOfVecs(BaseSet(g, Knot(g, iv + 1), Knot(g, iv + 2)))
           v    == Oriented(base[Draw(R, k0 + 3 * i, 1, Len(base))], Draw(R, k0 + 3 * i + 1, 1, 6), Draw(R, k0 + 3 * i + 2, 0, 7))
       IN Chain(R, k0, g, f, i + 1, Append(acc, Add3(acc[Len(acc)], v)))

ActivePairs(g, pos) == {pr \in (1..g.nb) \X (1..g.nb) : pr[1] < pr[2] /\ Active(g, pos, pr[1], pr[2])}
RECURSIVE PairSeq(_, _, _, _)
PairSeq(g, pos, i, j) == IF i >= g.nb THEN <<>>
                         ELSE IF j > g.nb THEN PairSeq(g, pos, i + 1, i + 2)
                         ELSE (IF Active(g, pos, i, j) THEN << <<i, j, N2(Sub(pos[i], pos[j])), Cls(g, i, j)>> >> ELSE <<>>)
                              \o PairSeq(g, pos, i, j + 1)

Nbrs(g, pos, i) == {j \in 1..g.nb : Active(g, pos, i, j)}
\* the directions from bead i to its active neighbours are linearly independent
Independent(g, pos, i) ==
  LET nb == Nbrs(g, pos, i)
  IN \/ Cardinality(nb) <= 1
     \/ /\ Cardinality(nb) = 2
        /\ \E j, l \in nb : j < l /\ Cross(Sub(pos[j], pos[i]), Sub(pos[l], pos[i])) # <<0, 0, 0>>
     \/ /\ Cardinality(nb) = 3
        /\ \E j, l, m \in nb : j < l /\ l < m /\ Det3(Sub(pos[j], pos[i]), Sub(pos[l], pos[i]), Sub(pos[m], pos[i])) # 0
FrameOK(g, fr) ==
  /\ \A pr \in ActivePairs(g, fr.pos) :
        LET d2 == N2(Sub(fr.pos[pr[1]], fr.pos[pr[2]]))
        IN /\ InIv(g, d2, Knot(g, 1), GMax(g))                     \* inside the spline grid (bonds too)
           /\ Independent(g, fr.pos, pr[1]) \/ Independent(g, fr.pos, pr[2])
  \* no non-bonded pair exactly at the cut-off (whether it counts would depend on rounding)
  /\ \A i, j \in 1..g.nb : i < j /\ Cls(g, i, j) > 0 => ~DistEQ(g, N2(Sub(fr.pos[i], fr.pos[j])), GMax(g))
  \* the box never matters
  /\ \A i \in 1..g.nb : \A c \in 1..3 : fr.pos[i][c] \in 0..BoxL
  /\ \A i, j \in 1..g.nb : \A c \in 1..3 : 2 * (fr.pos[i][c] - fr.pos[j][c]) < BoxL /\ 2 * (fr.pos[j][c] - fr.pos[i][c]) < BoxL
\* every frame has its own short streams (a single long one would recurse too deeply for TLC's stack): up to Tries
\* candidate configurations, the first one that satisfies FrameOK is taken (the last one if none does: Guard rejects)
Vec3(R, k, lo, hi) == <<Draw(R, k, lo, hi), Draw(R, k + 1, lo, hi), Draw(R, k + 2, lo, hi)>>
Candidate(s, g, f, t) ==
  LET R    == StreamN((s * 16 + f) * 8 + t, DrawsPerFrame + 4)
      cpos == Chain(R, 0, g, f, 1, <<Origin>>)
      pos  == [id \in 1..g.nb |-> cpos[ChainOfBead(g, id)]]
  IN [pos   |-> pos,
      noise |-> [i \in 1..g.nb |-> IF g.noisy THEN Vec3(R, 24 + 3 * (i - 1), -2, 2) ELSE <<0, 0, 0>>],
      known |-> [i \in 1..g.nb |-> IF g.tf THEN Vec3(R, 48 + 3 * (i - 1), -3, 3) ELSE <<0, 0, 0>>],
      pairs |-> PairSeq(g, pos, 1, 2)]
Tries == 8
RECURSIVE PickFrame(_, _, _, _)
PickFrame(s, g, f, t) == LET c == Candidate(s, g, f, t)
                         IN IF t >= Tries - 1 \/ FrameOK(g, c) THEN c ELSE PickFrame(s, g, f, t + 1)
Frame(s, g, f) == PickFrame(s, g, f, 0)

RunId(k) == IF k = 0 THEN "full" ELSE "blk" \o ToString(k)

Build(s) ==
  LET R0  == StreamN(s, 32)
      l0  == Draw(R0, 10, 0, 9)
      lay == IF l0 < 4 THEN 0 ELSE IF l0 < 7 THEN 1 ELSE 2
      b   == IF lay = 0 THEN Draw(R0, 1, 1, 3) ELSE Draw(R0, 1, 2, 3)
      K   == Draw(R0, 2, 1, 3)
      rem == IF b > 1 THEN Draw(R0, 3, 0, 1) ELSE 0
      NF  == K * b + rem
      gd  == IF Draw(R0, 9, 0, 2) = 0 THEN 10 ELSE 8
      g   == [gden |-> gd, gmin |-> IF gd = 10 THEN Draw(R0, 4, 2, 4) ELSE Draw(R0, 4, 2, 3), gstep |-> 1,
              n |-> IF lay = 0 THEN Draw(R0, 5, 4, 5) ELSE 4,
              nb |-> IF lay = 0 THEN Draw(R0, 6, 5, 6) ELSE IF lay = 1 THEN Draw(R0, 6, 6, 8) ELSE 2 * Draw(R0, 6, 3, 4),
              layout |-> lay, noisy |-> Draw(R0, 7, 0, 2) = 0, tf |-> Draw(R0, 11, 0, 2) = 0]
      tf  == g.tf
      blk == [r \in 1..(K + 1) |-> IF r = 1 THEN [id |-> RunId(0), first |-> 1, nframes |-> NF, tf |-> FALSE]
                                   ELSE [id |-> RunId(r - 1), first |-> (r - 2) * b + 1, nframes |-> b, tf |-> FALSE]]
  IN [k |-> "fm", s |-> s, layout |-> lay, nb |-> g.nb, types |-> [i \in 1..g.nb |-> TypeOf(g, i)],
      gden |-> g.gden, gmin |-> g.gmin, gstep |-> g.gstep, n |-> g.n, osub |-> Draw(R0, 12, 1, 2),
      noisy |-> g.noisy, tf |-> tf,
      inter |-> [c \in 1..NInter(g) |-> [name |-> InterName(g, c), bond |-> IsBond(g, c),
                                         y |-> [k \in 1..g.n |-> Draw(R0, 12 + 6 * (c - 1) + k, -4, 8)]]],
      b |-> b, K |-> K, rem |-> rem, con |-> Draw(R0, 8, 0, 1) = 1,
      frames |-> [f \in 1..NF |-> Frame(s, g, f)],
      runs |-> IF tf THEN Append(blk, [id |-> "tf", first |-> 1, nframes |-> NF, tf |-> TRUE]) ELSE blk,
      rels |-> << [c |-> "block-independence",
                   t |-> [r \in 1..(K + 1) |-> IF r = 1 THEN <<K, RunId(0)>> ELSE <<-1, RunId(r - 1)>>]] >>
               \o (IF tf THEN << [c |-> "trj-force", t |-> << <<1, "tf">>, <<-1, "full">> >>] >> ELSE <<>>)]

(* ------------------------------ well-posedness ----------------------------------- *)
Grid(q) == [gden |-> q.gden, gmin |-> q.gmin, gstep |-> q.gstep, n |-> q.n, nb |-> q.nb, layout |-> q.layout]
BlockFrames(q, k) == ((k - 1) * q.b + 1)..(k * q.b)
\* squared distances of the active pairs of class c in block k
Sites(q, k, c) == UNION {{q.frames[f].pairs[e][3] : e \in {e \in 1..Len(q.frames[f].pairs) : q.frames[f].pairs[e][4] = c}} :
                         f \in BlockFrames(q, k)}
BlockOK(q, k) ==
  LET g == Grid(q)
  IN /\ \A f \in BlockFrames(q, k) : FrameOK(g, q.frames[f])
     /\ q.n >= 4
     /\ \A c \in 1..NInter(g) : \A iv \in 1..(q.n - 1) :
           Cardinality({d2 \in Sites(q, k, c) : InIv(g, d2, Knot(g, iv), Knot(g, iv + 1))}) >= 2
\* the frames of an incomplete trailing block are read by the program too: they must be sane configurations as well
Guard(q) == /\ \A k \in 1..q.K : BlockOK(q, k)
            /\ \A f \in 1..Len(q.frames) : FrameOK(Grid(q), q.frames[f])

(* ------------------------------ model --------------------------------------------- *)
Init == ph = 0 /\ \E s \in Seed0..(Seed0 + NSeeds - 1) : inst = [k |-> "seed", s |-> s]
Next == ph = 0 /\ ph' = 1
        /\ inst' = LET q == Build(inst.s) IN IF Guard(q) THEN q ELSE [k |-> "skip", s |-> inst.s]
Spec == Init /\ [][Next]_vars

IsInst == ph = 1 /\ inst.k = "fm"
FramesOf(run) == run.first..(run.first + run.nframes - 1)
RunIds == {inst.runs[r].id : r \in 1..Len(inst.runs)}

\* what the relations mean: the single-block runs see exactly the frames of their block, the blocks tile the frames the
\* full run turns into complete blocks; the trj-force run sees the same frames as the full run
RelWindows == IsInst => /\ Len(inst.runs) = inst.K + 1 + (IF inst.tf THEN 1 ELSE 0)
                        /\ Len(inst.frames) = inst.K * inst.b + inst.rem /\ inst.rem < inst.b
                        /\ FramesOf(inst.runs[1]) = 1..Len(inst.frames)
                        /\ \A k \in 1..inst.K : FramesOf(inst.runs[k + 1]) = BlockFrames(inst, k)
                        /\ UNION {BlockFrames(inst, k) : k \in 1..inst.K} = 1..(inst.K * inst.b)
                        /\ \A k, l \in 1..inst.K : k # l => BlockFrames(inst, k) \cap BlockFrames(inst, l) = {}
                        /\ inst.tf => FramesOf(inst.runs[Len(inst.runs)]) = FramesOf(inst.runs[1])
RECURSIVE SumCoef(_, _)
SumCoef(rel, i) == IF i = 0 THEN 0 ELSE rel[i][1] + SumCoef(rel, i - 1)
\* every relation is satisfied by a run-independent table (coefficients add up to zero) and names existing runs
RelCoefs   == IsInst => \A r \in 1..Len(inst.rels) :
                           /\ SumCoef(inst.rels[r].t, Len(inst.rels[r].t)) = 0
                           /\ \A e \in 1..Len(inst.rels[r].t) : inst.rels[r].t[e][2] \in RunIds
\* the pair lists handed to the generator are exactly the active pairs, with their squared distances and classes
PairLists  == IsInst => \A f \in 1..Len(inst.frames) :
                LET fr == inst.frames[f]  g == Grid(inst)
                IN /\ {<<fr.pairs[e][1], fr.pairs[e][2]>> : e \in 1..Len(fr.pairs)} = ActivePairs(g, fr.pos)
                   /\ \A e \in 1..Len(fr.pairs) : /\ fr.pairs[e][3] = N2(Sub(fr.pos[fr.pairs[e][1]], fr.pos[fr.pairs[e][2]]))
                                                  /\ fr.pairs[e][4] = Cls(g, fr.pairs[e][1], fr.pairs[e][2])
                                                  /\ fr.pairs[e][4] \in 1..Len(inst.inter)
\* consecutive chain positions are neighbours in the intended interval; bead numbering is a bijection; bonds join
\* the two beads of one molecule
ChainOK    == IsInst => LET g == Grid(inst) IN
                /\ {BeadOfChain(g, c) : c \in 1..inst.nb} = 1..inst.nb
                /\ \A f \in 1..Len(inst.frames) : \A c \in 1..(inst.nb - 1) :
                      LET d2 == N2(Sub(inst.frames[f].pos[BeadOfChain(g, c)], inst.frames[f].pos[BeadOfChain(g, c + 1)]))
                          iv == (c + f) % (inst.n - 1)
                      IN InIv(g, d2, Knot(g, iv + 1), Knot(g, iv + 2))
                /\ inst.layout = 2 => inst.nb % 2 = 0
GuardHolds == IsInst => Guard(inst)
EmitRec    == (Emit /\ IsInst) => PrintT(ToJson(inst))
=============================================================================
