------------------------------- MODULE Fmatch -------------------------------
(* C06, csg_fmatch clauses, RELATIONAL reading (cf. spec/spline/SplineRel.tla, DESIGN 12.2): the spec supplies
   instances and states relations between observations of the real code; it contains no numeric oracle.

   Instance.  A coarse-grained trajectory of NF = K*b + rem frames of nb <= 6 beads of one type on the lattice
   (1/8) nm in a box so large that the minimum image is the direct vector; one non-bonded interaction with the
   spline grid  knot[k] = gmin + (k-1) gstep  (k = 1..n, lattice units), cut-off = knot[n]; knot values y[k]
   (integers) of a force function G that LIES IN the spline space of csg_fmatch: the natural cubic spline through
   (knot[k], y[k]).  The harness evaluates G with the real tools::CubicSpline (driver command `spl`) at the pair
   distances sqrt(d2)/8 listed here and writes the reference forces
        F_i = sum_{j : d2(i,j) < knot[n]^2}  G(r_ij) (p_i - p_j)/r_ij   (+ an integer noise vector if noisy).
   Runs of the real csg_fmatch on that trajectory (frames_per_block = b, constrainedLS = con):
        "full"    all NF frames                      -> K complete blocks, a trailing incomplete block is ignored
        "blk<k>"  --first-frame (k-1)b+1 --nframes b  -> exactly the frames of block k, one block
   Relations between the written force tables T(run)[i] (one per output grid point i):
     BLOCK INDEPENDENCE   K * T(full)[i] - sum_k T(blk<k>)[i] = 0
        (the program writes the average over the blocks done so far; each block's result must be what a run on
         that block's frames alone gives: nothing may survive from one block to the next)
     REPRODUCTION (noise-free instances)   T(run)[k] = c * y[k]  at the knots, for every run,
        c = the unit conversion the trajectory reader applies to forces (a constant of the real code).
   Well-posedness (Guard, checked by TLC on the lattice configuration, exact integer arithmetic): for every
   block  (i) no pair closer than knot[1] and none exactly at the cut-off;  (ii) every pair inside the cut-off has an
   end point whose in-range neighbour directions are linearly independent (so zero net forces force G = 0 at that
   distance: no cancellation);  (iii) every spline interval [knot[k], knot[k+1]) contains >= 2 distinct distances and
   n >= 4.  (ii)+(iii) imply that only G = 0 produces zero forces (a natural cubic spline with n knots that does not
   vanish on an interval has <= n+1 zeros < 2(n-1); one vanishing on an interval is c (x - knot)^3 next to it, which
   has no zero inside), i.e. the least-squares problem of every block has full rank.  Draws that fail are skipped. *)
EXTENDS Integers, Sequences, FiniteSets, TLC, Json, LsqRand

CONSTANTS Seed0, NSeeds, Emit
VARIABLES ph, inst
vars == <<ph, inst>>

Origin == <<20, 20, 20>>
BoxL   == 64                \* box edge in lattice units (80 Angstrom)

(* ------------------------------ lattice geometry -------------------------------- *)
Sub(p, q)  == <<p[1] - q[1], p[2] - q[2], p[3] - q[3]>>
Add3(p, q) == <<p[1] + q[1], p[2] + q[2], p[3] + q[3]>>
N2(v)      == v[1] * v[1] + v[2] * v[2] + v[3] * v[3]
Cross(u, v) == <<u[2] * v[3] - u[3] * v[2], u[3] * v[1] - u[1] * v[3], u[1] * v[2] - u[2] * v[1]>>
Det3(u, v, w) == u[1] * (v[2] * w[3] - v[3] * w[2]) - u[2] * (v[1] * w[3] - v[3] * w[1]) + u[3] * (v[1] * w[2] - v[2] * w[1])

Knot(g, k) == g.gmin + (k - 1) * g.gstep
Cut2(g)    == Knot(g, g.n) * Knot(g, g.n)

\* base vectors a >= b >= c >= 0 with squared length in [lo^2, hi^2), as a sequence in a fixed order
BaseSet(lo, hi) == {v \in (0..hi) \X (0..hi) \X (0..hi) : v[1] >= v[2] /\ v[2] >= v[3] /\ N2(v) >= lo * lo /\ N2(v) < hi * hi}
RECURSIVE SeqOfVecs(_)
SeqOfVecs(S) == IF S = {} THEN <<>>
                ELSE LET m == CHOOSE a \in S : \A c \in S : a[1] * 100 + a[2] * 10 + a[3] <= c[1] * 100 + c[2] * 10 + c[3]
                     IN <<m>> \o SeqOfVecs(S \ {m})
Perms == << <<1, 2, 3>>, <<1, 3, 2>>, <<2, 1, 3>>, <<2, 3, 1>>, <<3, 1, 2>>, <<3, 2, 1>> >>
Oriented(v, pi, sg) == LET q == Perms[pi]
                       IN << (IF sg % 2 = 1 THEN -1 ELSE 1) * v[q[1]],
                             (IF (sg \div 2) % 2 = 1 THEN -1 ELSE 1) * v[q[2]],
                             (IF (sg \div 4) % 2 = 1 THEN -1 ELSE 1) * v[q[3]] >>

(* ------------------------------ building an instance ---------------------------- *)
DrawsPerFrame == 40
\* a chain: bead i+1 = bead i + a vector whose length lies in spline interval ((i + f) mod (n-1))
RECURSIVE Chain(_, _, _, _, _, _)
Chain(R, k0, g, f, i, acc) ==
  IF i >= g.nb THEN acc
  ELSE LET iv   == (i + f) % (g.n - 1)
           base == SeqOfVecs(BaseSet(Knot(g, iv + 1), Knot(g, iv + 2)))
           v    == Oriented(base[Draw(R, k0 + 3 * i, 1, Len(base))], Draw(R, k0 + 3 * i + 1, 1, 6), Draw(R, k0 + 3 * i + 2, 0, 7))
       IN Chain(R, k0, g, f, i + 1, Append(acc, Add3(acc[Len(acc)], v)))

PairsOf(g, pos) == {pr \in (1..g.nb) \X (1..g.nb) : pr[1] < pr[2] /\ N2(Sub(pos[pr[1]], pos[pr[2]])) < Cut2(g)}
RECURSIVE PairSeq(_, _, _, _)
PairSeq(g, pos, i, j) == IF i >= g.nb THEN <<>>
                         ELSE IF j > g.nb THEN PairSeq(g, pos, i + 1, i + 2)
                         ELSE (IF N2(Sub(pos[i], pos[j])) < Cut2(g) THEN << <<i, j, N2(Sub(pos[i], pos[j]))>> >> ELSE <<>>)
                              \o PairSeq(g, pos, i, j + 1)

Nbrs(g, pos, i) == {j \in 1..g.nb : j # i /\ N2(Sub(pos[i], pos[j])) < Cut2(g)}
\* the directions from bead i to its in-range neighbours are linearly independent
Independent(g, pos, i) ==
  LET nb == Nbrs(g, pos, i)
  IN \/ Cardinality(nb) <= 1
     \/ /\ Cardinality(nb) = 2
        /\ \E j, l \in nb : j < l /\ Cross(Sub(pos[j], pos[i]), Sub(pos[l], pos[i])) # <<0, 0, 0>>
     \/ /\ Cardinality(nb) = 3
        /\ \E j, l, m \in nb : j < l /\ l < m /\ Det3(Sub(pos[j], pos[i]), Sub(pos[l], pos[i]), Sub(pos[m], pos[i])) # 0
FrameOK(g, fr) ==
  /\ \A i, j \in 1..g.nb : i < j => /\ N2(Sub(fr.pos[i], fr.pos[j])) >= Knot(g, 1) * Knot(g, 1)
                                    /\ N2(Sub(fr.pos[i], fr.pos[j])) # Cut2(g)
  /\ \A pr \in PairsOf(g, fr.pos) : Independent(g, fr.pos, pr[1]) \/ Independent(g, fr.pos, pr[2])
  \* the box never matters
  /\ \A i \in 1..g.nb : \A c \in 1..3 : fr.pos[i][c] \in 0..BoxL
  /\ \A i, j \in 1..g.nb : \A c \in 1..3 : 2 * (fr.pos[i][c] - fr.pos[j][c]) < BoxL /\ 2 * (fr.pos[j][c] - fr.pos[i][c]) < BoxL
\* every frame has its own short streams (a single long one would recurse too deeply for TLC's stack): up to Tries
\* candidate configurations, the first one that satisfies FrameOK is taken (the last one if none does: Guard rejects)
Candidate(s, g, f, t) ==
  LET k0  == 0
      R   == StreamN((s * 16 + f) * 8 + t, DrawsPerFrame + 8)
      pos == Chain(R, k0, g, f, 1, <<Origin>>)
  IN [pos   |-> pos,
      noise |-> [i \in 1..g.nb |-> IF g.noisy THEN <<Draw(R, k0 + 20 + 3 * i, -2, 2), Draw(R, k0 + 21 + 3 * i, -2, 2),
                                                      Draw(R, k0 + 22 + 3 * i, -2, 2)>> ELSE <<0, 0, 0>>],
      pairs |-> PairSeq(g, pos, 1, 2)]
Tries == 8
RECURSIVE PickFrame(_, _, _, _)
PickFrame(s, g, f, t) == LET c == Candidate(s, g, f, t)
                         IN IF t >= Tries - 1 \/ FrameOK(g, c) THEN c ELSE PickFrame(s, g, f, t + 1)
Frame(s, g, f) == PickFrame(s, g, f, 0)

RunId(k) == IF k = 0 THEN "full" ELSE "blk" \o ToString(k)

Build(s) ==
  LET R0 == StreamN(s, 20)
      b   == Draw(R0, 1, 1, 3)
      K   == Draw(R0, 2, 1, 3)
      rem == IF b > 1 THEN Draw(R0, 3, 0, 1) ELSE 0
      NF  == K * b + rem
      g   == [gmin |-> Draw(R0, 4, 2, 3), gstep |-> 1, n |-> Draw(R0, 5, 4, 5), nb |-> Draw(R0, 6, 5, 6),
              noisy |-> Draw(R0, 7, 0, 2) = 0]
  IN [k |-> "fm", s |-> s, nb |-> g.nb, gmin |-> g.gmin, gstep |-> g.gstep, n |-> g.n, noisy |-> g.noisy,
      y |-> [k \in 1..g.n |-> Draw(R0, 10 + k, -4, 8)],
      b |-> b, K |-> K, rem |-> rem, con |-> Draw(R0, 8, 0, 1) = 1,
      frames |-> [f \in 1..NF |-> Frame(s, g, f)],
      runs |-> [r \in 1..(K + 1) |-> IF r = 1 THEN [id |-> RunId(0), first |-> 1, nframes |-> NF]
                                     ELSE [id |-> RunId(r - 1), first |-> (r - 2) * b + 1, nframes |-> b]],
      rel  |-> [r \in 1..(K + 1) |-> IF r = 1 THEN <<K, RunId(0)>> ELSE <<-1, RunId(r - 1)>>]]

(* ------------------------------ well-posedness ----------------------------------- *)
Grid(q) == [gmin |-> q.gmin, gstep |-> q.gstep, n |-> q.n, nb |-> q.nb]
BlockFrames(q, k) == ((k - 1) * q.b + 1)..(k * q.b)
Sites(q, k) == UNION {{q.frames[f].pairs[e][3] : e \in 1..Len(q.frames[f].pairs)} : f \in BlockFrames(q, k)}
BlockOK(q, k) ==
  LET g == Grid(q)
  IN /\ \A f \in BlockFrames(q, k) : FrameOK(g, q.frames[f])
     /\ q.n >= 4
     /\ \A iv \in 1..(q.n - 1) :
           Cardinality({d2 \in Sites(q, k) : d2 >= Knot(g, iv) * Knot(g, iv) /\ d2 < Knot(g, iv + 1) * Knot(g, iv + 1)}) >= 2
Guard(q) == \A k \in 1..q.K : BlockOK(q, k)

(* ------------------------------ model --------------------------------------------- *)
Init == ph = 0 /\ \E s \in Seed0..(Seed0 + NSeeds - 1) : inst = [k |-> "seed", s |-> s]
Next == ph = 0 /\ ph' = 1
        /\ inst' = LET q == Build(inst.s) IN IF Guard(q) THEN q ELSE [k |-> "skip", s |-> inst.s]
Spec == Init /\ [][Next]_vars

IsInst == ph = 1 /\ inst.k = "fm"
FramesOf(run) == run.first..(run.first + run.nframes - 1)

\* what the relation means: the single-block runs see exactly the frames of their block, the blocks tile the frames the
\* full run turns into complete blocks, the coefficients add up to zero (a constant table satisfies the relation)
RelWindows == IsInst => /\ Len(inst.runs) = inst.K + 1 /\ Len(inst.frames) = inst.K * inst.b + inst.rem /\ inst.rem < inst.b
                        /\ FramesOf(inst.runs[1]) = 1..Len(inst.frames)
                        /\ \A k \in 1..inst.K : FramesOf(inst.runs[k + 1]) = BlockFrames(inst, k)
                        /\ UNION {BlockFrames(inst, k) : k \in 1..inst.K} = 1..(inst.K * inst.b)
                        /\ \A k, l \in 1..inst.K : k # l => BlockFrames(inst, k) \cap BlockFrames(inst, l) = {}
RECURSIVE SumCoef(_, _)
SumCoef(rel, i) == IF i = 0 THEN 0 ELSE rel[i][1] + SumCoef(rel, i - 1)
RelCoefs   == IsInst => /\ SumCoef(inst.rel, Len(inst.rel)) = 0
                        /\ \A r \in 1..Len(inst.rel) : inst.rel[r][2] = inst.runs[r].id
\* the pair lists handed to the generator are exactly the pairs inside the cut-off, with their squared distances
PairLists  == IsInst => \A f \in 1..Len(inst.frames) :
                LET fr == inst.frames[f]  g == Grid(inst)
                IN /\ {<<fr.pairs[e][1], fr.pairs[e][2]>> : e \in 1..Len(fr.pairs)} = PairsOf(g, fr.pos)
                   /\ \A e \in 1..Len(fr.pairs) : fr.pairs[e][3] = N2(Sub(fr.pos[fr.pairs[e][1]], fr.pos[fr.pairs[e][2]]))
\* consecutive beads of the chain are neighbours in the intended interval (the construction does what it says)
ChainOK    == IsInst => \A f \in 1..Len(inst.frames) : \A i \in 1..(inst.nb - 1) :
                LET d2 == N2(Sub(inst.frames[f].pos[i], inst.frames[f].pos[i + 1]))
                    iv == (i + f) % (inst.n - 1)
                    g  == Grid(inst)
                IN d2 >= Knot(g, iv + 1) * Knot(g, iv + 1) /\ d2 < Knot(g, iv + 2) * Knot(g, iv + 2)
GuardHolds == IsInst => Guard(inst)
EmitRec    == (Emit /\ IsInst) => PrintT(ToJson(inst))
=============================================================================
