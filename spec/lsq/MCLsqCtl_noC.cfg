SPECIFICATION Spec
CONSTANTS
  Kinds = {"xc"}
  Seed0 <- MCSeed0
  NSeeds <- MCNSeeds
  EntrySet <- MCEntries
  BSet <- MCBSet
  RSet <- MCRSet
  CSet <- MCCEntries
  Variant = "noC"
  Emit = FALSE
INVARIANTS
  ConExact
CHECK_DEADLOCK FALSE
