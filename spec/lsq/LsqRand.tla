------------------------------ MODULE LsqRand ------------------------------
(* Seed-indexed pseudo-random stream used by LsqCheck and Fmatch to enumerate bounded domains that are too
   large for an exhaustive product: two multiplicative congruential generators with prime moduli below
   2^15.5 (every product stays below 2^31, TLC integers are 32 bit), added.  Everything that is drawn is
   drawn inside TLA+, so the instance a seed denotes is part of the model. *)
EXTENDS Integers, Sequences

P1 == 46337      \* primes below 2^15.5 and primitive roots
G1 == 20001
P2 == 46327
G2 == 20005
RECURSIVE GenFrom(_, _, _)
GenFrom(x, y, k) == IF k = 0 THEN <<>> ELSE <<x + y>> \o GenFrom((x * G1) % P1, (y * G2) % P2, k - 1)
StreamLen == 64
StreamN(s, len) == GenFrom(1 + ((((s % 40000) * 7) + 13) % (P1 - 1)),
                           1 + (((((s \div 3) % 40000) * 11) + ((s % 3) * 5) + 5) % (P2 - 1)), len)
Stream(s) == StreamN(s, StreamLen)
Draw(R, k, lo, hi) == lo + (R[k + 1] % (hi - lo + 1))     \* R[1] is still linear in the seed
=============================================================================
