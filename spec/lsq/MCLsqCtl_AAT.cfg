SPECIFICATION Spec
CONSTANTS
  Kinds = {"xt"}
  Seed0 <- MCSeed0
  NSeeds <- MCNSeeds
  EntrySet <- MCEntries
  BSet <- MCBSet
  RSet <- MCRSet
  CSet <- MCCEntries
  Variant = "AAT"
  Emit = FALSE
INVARIANTS
  TikNormalEq
CHECK_DEADLOCK FALSE
