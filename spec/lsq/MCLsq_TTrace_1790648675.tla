---- MODULE MCLsq_TTrace_1790648675 ----
EXTENDS Sequences, TLCExt, Toolbox, MCLsq, Naturals, TLC

_expression ==
    LET MCLsq_TEExpression == INSTANCE MCLsq_TEExpression
    IN MCLsq_TEExpression!expression
----

_trace ==
    LET MCLsq_TETrace == INSTANCE MCLsq_TETrace
    IN MCLsq_TETrace!trace
----

_inv ==
    ~(
        TLCGet("level") = Len(_TETrace)
        /\
        ph = (1)
        /\
        sys = ([k |-> "xt", s |-> 0, n |-> 2, idx |-> <<[name |-> 1, blocks |-> <<<<1, 2>>>>]>>, A |-> <<<<-2, -2>>, <<-1, -1>>>>, b |-> <<1, -2>>, rn |-> 1, rd |-> 1, grid |-> <<1, 2>>, num |-> <<-7, 4>>, den |-> 11, tables |-> <<[name |-> 1, rows |-> <<<<1, -7>>, <<2, 4>>>>]>>, sym |-> FALSE])
    )
----

_init ==
    /\ ph = _TETrace[1].ph
    /\ sys = _TETrace[1].sys
----

_next ==
    /\ \E i,j \in DOMAIN _TETrace:
        /\ \/ /\ j = i + 1
              /\ i = TLCGet("level")
        /\ ph  = _TETrace[i].ph
        /\ ph' = _TETrace[j].ph
        /\ sys  = _TETrace[i].sys
        /\ sys' = _TETrace[j].sys

\* Uncomment the ASSUME below to write the states of the error trace
\* to the given file in Json format. Note that you can pass any tuple
\* to `JsonSerialize`. For example, a sub-sequence of _TETrace.
    \* ASSUME
    \*     LET J == INSTANCE Json
    \*         IN J!JsonSerialize("MCLsq_TTrace_1790648675.json", _TETrace)

=============================================================================

 Note that you can extract this module `MCLsq_TEExpression`
  to a dedicated file to reuse `expression` (the module in the 
  dedicated `MCLsq_TEExpression.tla` file takes precedence 
  over the module `MCLsq_TEExpression` below).

---- MODULE MCLsq_TEExpression ----
EXTENDS Sequences, TLCExt, Toolbox, MCLsq, Naturals, TLC

expression == 
    [
        \* To hide variables of the `MCLsq` spec from the error trace,
        \* remove the variables below.  The trace will be written in the order
        \* of the fields of this record.
        ph |-> ph
        ,sys |-> sys
        
        \* Put additional constant-, state-, and action-level expressions here:
        \* ,_stateNumber |-> _TEPosition
        \* ,_phUnchanged |-> ph = ph'
        
        \* Format the `ph` variable as Json value.
        \* ,_phJson |->
        \*     LET J == INSTANCE Json
        \*     IN J!ToJson(ph)
        
        \* Lastly, you may build expressions over arbitrary sets of states by
        \* leveraging the _TETrace operator.  For example, this is how to
        \* count the number of times a spec variable changed up to the current
        \* state in the trace.
        \* ,_phModCount |->
        \*     LET F[s \in DOMAIN _TETrace] ==
        \*         IF s = 1 THEN 0
        \*         ELSE IF _TETrace[s].ph # _TETrace[s-1].ph
        \*             THEN 1 + F[s-1] ELSE F[s-1]
        \*     IN F[_TEPosition - 1]
    ]

=============================================================================



Parsing and semantic processing can take forever if the trace below is long.
 In this case, it is advised to uncomment the module below to deserialize the
 trace from a generated binary file.

\*
\*---- MODULE MCLsq_TETrace ----
\*EXTENDS IOUtils, MCLsq, TLC
\*
\*trace == IODeserialize("MCLsq_TTrace_1790648675.bin", TRUE)
\*
\*=============================================================================
\*

---- MODULE MCLsq_TETrace ----
EXTENDS MCLsq, TLC

trace == 
    <<
    ([ph |-> 0,sys |-> [k |-> "xt", A |-> <<<<-2, -2>>, <<-1, -1>>>>, b |-> <<1, -2>>, r |-> 1]]),
    ([ph |-> 1,sys |-> [k |-> "xt", s |-> 0, n |-> 2, idx |-> <<[name |-> 1, blocks |-> <<<<1, 2>>>>]>>, A |-> <<<<-2, -2>>, <<-1, -1>>>>, b |-> <<1, -2>>, rn |-> 1, rd |-> 1, grid |-> <<1, 2>>, num |-> <<-7, 4>>, den |-> 11, tables |-> <<[name |-> 1, rows |-> <<<<1, -7>>, <<2, 4>>>>]>>, sym |-> FALSE]])
    >>
----


=============================================================================

---- CONFIG MCLsq_TTrace_1790648675 ----
CONSTANTS
    Kinds = { "xt" }
    Seed0 <- MCSeed0
    NSeeds <- MCNSeeds
    EntrySet <- MCEntries
    BSet <- MCBSet
    RSet <- MCRSet
    CSet <- MCCEntries
    Variant = "rhsA"
    Emit = FALSE

INVARIANT
    _inv

CHECK_DEADLOCK
    \* CHECK_DEADLOCK off because of PROPERTY or INVARIANT above.
    FALSE

INIT
    _init

NEXT
    _next

CONSTANT
    _TETrace <- _trace

ALIAS
    _expression
=============================================================================
\* Generated on Tue Sep 29 02:24:37 UTC 2026