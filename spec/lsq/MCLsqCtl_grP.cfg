SPECIFICATION Spec
CONSTANTS
  Kinds = {"grx"}
  Seed0 <- MCSeed0
  NSeeds <- MCNSeeds
  EntrySet <- MCEntries
  BSet <- MCBSet
  RSet <- MCRSet
  CSet <- MCCEntries
  Variant = "grP"
  Emit = FALSE
INVARIANTS
  GrNormalEq
CHECK_DEADLOCK FALSE
