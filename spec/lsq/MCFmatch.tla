------------------------------ MODULE MCFmatch ------------------------------
EXTENDS Fmatch, IOUtils
EnvInt(name, dflt) == IF name \in DOMAIN IOEnv THEN atoi(IOEnv[name]) ELSE dflt
MCSeed0  == EnvInt("C06_SEED0", 1)
MCNSeeds == EnvInt("C06_NSEEDS", 50)
=============================================================================
