SPECIFICATION Spec
CONSTANTS
  Seed0 <- MCSeed0
  NSeeds <- MCNSeeds
  Emit = TRUE
INVARIANTS
  RelWindows RelCoefs PairLists ChainOK GuardHolds SplineOK BondedOK EmitRec
CHECK_DEADLOCK FALSE
