------------------------------ MODULE LsqCheck ------------------------------
(* Model around Lsq.tla (mode L, DESIGN 2): every system of the bounded domain is one
   behaviour  seed-state (ph = 0)  ->  built and solved system (ph = 1).  The laws are
   evaluated on the ph = 1 states (so that TLC's workers share the work) and the Emit
   invariant prints one JSON record per system for the replay into the real code.

   Two ways of enumerating the domain:
   * exhaustive families (kinds "xt", "xc"): every 2x2 matrix over EntrySet, every
     right-hand side of BSet, every r of RSet / every constraint row over CSet;
   * pseudo-random families (kinds "tik", "con") indexed by a seed: shapes n <= 4
     (Tikhonov) resp. m x n, p constraint rows, n + p <= 5 (constrained), entries
     -2..2, r = rn/rd, and the layout of the index file are all derived from the seed
     by two multiplicative congruential generators (moduli < 2^15.5 so that every
     product stays below 2^31).  The expectation is computed by the Lsq operators only. *)
EXTENDS Lsq, LsqRand, Json

CONSTANTS Kinds,      \* subset of {"tik", "con", "xt", "xc"}
          Seed0, NSeeds,
          EntrySet, BSet, RSet, CSet,   \* exhaustive families
          Variant,    \* "ok"; anything else is a deliberately wrong model used as a negative control
          Emit        \* (MCLsqCtl*.cfg: TLC must refute the stated law, else the laws would be vacuous)

VARIABLES ph, sys
vars == <<ph, sys>>

(* ------------------------------ index-file layouts ----------------------------- *)
\* contiguous groups: cut after position i (1 <= i < n) iff cut[i]; a group lo..hi is written
\* "lo:hi", a single position "lo" or "lo:lo" (single[..])
RECURSIVE Groups(_, _, _, _)
Groups(n, cut, lo, i) == IF i > n THEN <<>>
                         ELSE IF i = n \/ cut[i] THEN <<<<lo, i>>>> \o Groups(n, cut, i + 1, i + 1)
                         ELSE Groups(n, cut, lo, i + 1)
ContiguousIdx(n, cut, short) ==
  LET g == Groups(n, cut, 1, 1)
  IN [e \in 1..Len(g) |-> [name |-> e,
                           blocks |-> IF g[e][1] = g[e][2] /\ short THEN <<<<g[e][1]>>>> ELSE <<g[e]>>]]
\* two interleaved interactions "1:2:last" and "2:2:last" (n >= 2)
LastOfParity(n, par) == IF (n % 2) = (par % 2) THEN n ELSE n - 1
InterleavedIdx(n) == << [name |-> 1, blocks |-> <<<<1, 2, LastOfParity(n, 1)>>>>],
                        [name |-> 2, blocks |-> <<<<2, 2, LastOfParity(n, 0)>>>>] >>
\* the outer positions as a two-block list "1,n", the inner ones "2:n-1" (n >= 3)
OuterInnerIdx(n) == << [name |-> 1, blocks |-> <<<<1>>, <<n>>>>],
                       [name |-> 2, blocks |-> <<<<2, n - 1>>>>] >>
\* grid: every table restarts at g0 + gs, g0 + 2 gs, ... (units of 1/16)
GridOf(idx, n, g0, gs) ==
  [i \in 1..n |-> LET ek == CHOOSE ek \in {<<e, k>> : e \in 1..Len(idx), k \in 1..n} :
                               /\ ek[2] <= Len(Denote(idx[ek[1]].blocks))
                               /\ Denote(idx[ek[1]].blocks)[ek[2]] = i
                  IN g0 + ek[2] * gs]

(* ------------------------------ building systems ------------------------------- *)
Matrix(R, k0, m, n, lo, hi) == [i \in 1..m |-> [j \in 1..n |-> Draw(R, k0 + (i - 1) * n + j, lo, hi)]]
Vector(R, k0, n, lo, hi)    == [i \in 1..n |-> Draw(R, k0 + i, lo, hi)]

TikRecord(tag, s, A, b, rn, rd, idx, grid) ==
  LET sol == CASE Variant = "ok"    -> TikSolve(A, b, rn, rd)
               [] Variant = "AAT"   -> Solve(ScalePlusDiag(rd, MatMul(A, Tr(A)), rn), TikRhs(A, b, rd))   \* A A^T
               [] Variant = "rhsA"  -> Solve(TikM(A, rn, rd), ScaleV(-rd, MatVec(A, b)))                  \* A b
               [] Variant = "sign"  -> Solve(TikM(A, rn, rd), NegV(TikRhs(A, b, rd)))
               [] OTHER             -> TikSolve(A, b, rn, rd)
  IN [k |-> tag, s |-> s, n |-> Cols(A), A |-> A, b |-> b, rn |-> rn, rd |-> rd,
      idx |-> idx, grid |-> grid, num |-> sol.num, den |-> sol.den,
      tables |-> Tables(idx, grid, sol.num), sym |-> IsSymmetric(A)]

BuildTik(s) ==
  LET R  == Stream(s)
      n0 == Draw(R, 1, 1, 4)
      n  == IF n0 = 1 /\ Draw(R, 2, 0, 3) # 0 THEN 1 + Draw(R, 2, 0, 3) ELSE n0         \* few 1x1 systems
      A  == Matrix(R, 10, n, n, -2, 2)
      b  == Vector(R, 30, n, -3, 3)
      r0 == Draw(R, 3, 0, 5)
      rn == IF r0 = 0 /\ Det(A) = 0 THEN 1 ELSE r0           \* r = 0 only for invertible A
      rd == IF n <= 3 /\ rn > 0 THEN <<1, 1, 2, 4>>[Draw(R, 4, 1, 4)] ELSE 1
      lay == Draw(R, 5, 0, 5)
      cut == [i \in 1..n |-> Draw(R, 40 + i, 0, 1) = 1]
      idx == IF lay = 4 /\ n >= 2 THEN InterleavedIdx(n)
             ELSE IF lay = 5 /\ n >= 3 THEN OuterInnerIdx(n)
             ELSE ContiguousIdx(n, cut, (lay % 2) = 0)
      grid == GridOf(idx, n, Draw(R, 6, 0, 3), Draw(R, 7, 1, 3))
  IN TikRecord("tik", s, A, b, rn, rd, idx, grid)

\* exponents of the row scaling D = diag(2^k) replayed into the real routine (powers of two: D C is exact in
\* floating point; 2^70 itself is far outside TLC's integers, so TLC checks the relation with small integer
\* multipliers (ConRowScale) and only SUPPLIES the exponents; the harness compares x(A, b, D C) with the same
\* rational as x(A, b, C) and evaluates C x = 0 against the UNSCALED C)
KExps == <<0, 20, -20, 40, -40, 70, -70>>
ConRecord(tag, s, A, b, C, kexp) ==
  LET sol == CASE Variant = "noC" -> [num |-> Solve(Gram(A), MatVec(Tr(A), b)).num, lam |-> ZeroV(Rows(C)),
                                      den |-> Det(Gram(A))]                                    \* constraint ignored
               [] Variant = "zero" -> [num |-> ZeroV(Cols(A)), lam |-> ZeroV(Rows(C)), den |-> 1]        \* feasible, not optimal
               [] OTHER           -> ConSolve(A, b, C)
  IN [k |-> tag, s |-> s, m |-> Rows(A), n |-> Cols(A), p |-> Rows(C), A |-> A, b |-> b, C |-> C,
      num |-> sol.num, lam |-> sol.lam, den |-> sol.den, zerocol |-> HasZeroColumn(A), kexp |-> kexp]

BuildCon(s) ==
  LET R == Stream(s)
      n == Draw(R, 1, 2, 4)
      p0 == IF n = 4 THEN Draw(R, 2, 0, 1) ELSE Draw(R, 2, 0, n - 1)      \* p = 0: no constraint, the plain least-squares
      p == IF p0 = 0 /\ Draw(R, 4, 0, 2) # 0 THEN 1 ELSE p0                   \* problem through the same routine (rarer)
      m == Draw(R, 3, n - p, 4)
      A == Matrix(R, 10, m, n, -2, 2)
      b == Vector(R, 30, m, -3, 3)
      C == Matrix(R, 40, p, n, -2, 2)
      kexp == [i \in 1..p |-> KExps[Draw(R, 50 + i, 1, 7)]]
  IN ConRecord("con", s, A, b, C, kexp)

Mat2(a) == <<<<a[1], a[2]>>, <<a[3], a[4]>>>>

Init == /\ ph = 0
        /\ \/ /\ "tik" \in Kinds
              /\ \E s \in Seed0..(Seed0 + NSeeds - 1) : sys = [k |-> "tik", s |-> s]
           \/ /\ "con" \in Kinds
              /\ \E s \in Seed0..(Seed0 + NSeeds - 1) : sys = [k |-> "con", s |-> s]
           \/ /\ "xt" \in Kinds
              /\ \E a \in [1..4 -> EntrySet], b \in BSet, r \in RSet :
                    sys = [k |-> "xt", A |-> Mat2(a), b |-> b, r |-> r]
           \/ /\ "xc" \in Kinds
              /\ \E a \in [1..4 -> EntrySet], b \in BSet, c \in [1..2 -> CSet] :
                    sys = [k |-> "xc", A |-> Mat2(a), b |-> b, C |-> <<c>>]

Build(q) == CASE q.k = "tik" -> BuildTik(q.s)
              [] q.k = "con" -> BuildCon(q.s)
              [] q.k = "xt"  -> LET idx == ContiguousIdx(2, [i \in 1..2 |-> ((q.A[1][2] + q.r) % 2) = 0], (q.A[1][1] % 2) = 0)
                                IN TikRecord("xt", 0, q.A, q.b, q.r, 1, idx, GridOf(idx, 2, 0, 1))
              [] q.k = "xc"  -> ConRecord("xc", 0, q.A, q.b, q.C,
                                           <<KExps[1 + ((q.A[1][1] + 2 * q.A[2][2] + 3 * q.C[1][1] + 14) % 7)]>>)

Next == ph = 0 /\ ph' = 1 /\ sys' = Build(sys)
Spec == Init /\ [][Next]_vars

IsTik == ph = 1 /\ sys.k \in {"tik", "xt"}
IsCon == ph = 1 /\ sys.k \in {"con", "xc"}
Sol   == [num |-> sys.num, den |-> sys.den]
WellPosedCon == IsCon /\ sys.den # 0

(* ------------------------------ laws: Tikhonov --------------------------------- *)
\* r > 0: A^T A + r I is positive definite, in particular regular; r = 0 is only generated for regular A
TikWellPosed == IsTik => /\ sys.den # 0
                         /\ sys.rn > 0 => sys.den > 0
                         /\ sys.rn >= 0 /\ sys.rd > 0
TikNormalEq  == IsTik => NormalEq(sys.A, sys.b, sys.rn, sys.rd, Sol)
\* Cramer's rule really solved the system it was given (model-internal cross-check)
TikCramer    == IsTik => Solves(TikM(sys.A, sys.rn, sys.rd), TikRhs(sys.A, sys.b, sys.rd), Sol)
TikGramSym   == IsTik => IsSymmetric(TikM(sys.A, sys.rn, sys.rd))
\* the normal equations characterise the minimiser of |A x + b|^2 + r |x|^2 (evaluated where the
\* cross-multiplied objective stays far below 2^31)
TikSmall     == IsTik /\ sys.n <= 2 /\ sys.rd = 1 /\ sys.rn > 0
                      /\ MaxAbsV(sys.num) <= 400 /\ AbsI(sys.den) <= 400
TikMin       == TikSmall => TikMinimiser(sys.A, sys.b, sys.rn, sys.rd, Sol)
\* splitting
SplitPartition   == IsTik => IsPartition(sys.idx, sys.n)
SplitReassembles == IsTik => Reassembles(sys.idx, sys.grid, sys.num, sys.tables)
SplitNames       == IsTik => \A e, f \in 1..Len(sys.idx) : e # f => sys.idx[e].name # sys.idx[f].name

(* ------------------------------ laws: constrained ------------------------------ *)
Grad == ResGrad(sys.A, sys.b, Sol)
ConKKT        == WellPosedCon => Solves(KKT(sys.A, sys.C), KKTRhs(sys.A, sys.b, sys.C),
                                        [num |-> sys.num \o sys.lam, den |-> sys.den])
ConFullRank   == WellPosedCon => FullRowRank(sys.C)
ConExact      == WellPosedCon => ConstraintExact(sys.C, Sol)
ConGradRow    == WellPosedCon => GradInRowSpace(sys.C, Grad)
ConGradNull   == WellPosedCon => GradOrthNullLattice(sys.C, Grad, 2)
\* g = - C^T lambda (what the multipliers mean)
ConMultiplier == (WellPosedCon /\ sys.p > 0) => Grad = NegV(MatVec(Tr(sys.C), sys.lam))
ConSmall      == WellPosedCon /\ MaxAbsV(sys.num) <= 400 /\ AbsI(sys.den) <= 400
ConMin        == ConSmall => ConMinimiser(sys.A, sys.b, sys.C, Sol)
\* row scaling does not change the constrained minimiser (small integer multipliers, one negative)
Multipliers(p) == IF p = 1 THEN {<<2>>, <<-3>>} ELSE {<<2, 1>>, <<1, -3>>, <<2, -3>>}
ConRowScale   == ConSmall => \A d \in Multipliers(sys.p) : RowScaleInvariant(sys.A, sys.b, sys.C, d)
ConKExp       == IsCon => Len(sys.kexp) = sys.p /\ \A i \in 1..sys.p : \E j \in 1..7 : sys.kexp[i] = KExps[j]

(* ------------------------------ export ------------------------------------------ *)
EmitRec == (Emit /\ ph = 1 /\ (IsTik \/ WellPosedCon)) => PrintT(ToJson(sys))
=============================================================================
