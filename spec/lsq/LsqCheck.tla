------------------------------ MODULE LsqCheck ------------------------------
(* Model around Lsq.tla (mode L, DESIGN 2): every system of the bounded domain is one
   behaviour  seed-state (ph = 0)  ->  built and solved system (ph = 1).  The laws are
   evaluated on the ph = 1 states (so that TLC's workers share the work) and the Emit
   invariant prints one JSON record per system for the replay into the real code.

   Two ways of enumerating the domain:
   * exhaustive families (kinds "xt", "xc"): every 2x2 matrix over EntrySet, every
     right-hand side of BSet, every r of RSet / every constraint row over CSet;
   * pseudo-random families (kinds "tik", "con") indexed by a seed: shapes n <= 4
     (Tikhonov) resp. m x n, p constraint rows, n + p <= 5 (constrained), entries
     -2..2, r = rn/rd, and the layout of the index file are all derived from the seed
     by two multiplicative congruential generators (moduli < 2^15.5 so that every
     product stays below 2^31).  The expectation is computed by the Lsq operators only. *)
EXTENDS Lsq, LsqRand, Json

CONSTANTS Kinds,      \* subset of {"tik", "con", "xt", "xc"}
          Seed0, NSeeds,
          EntrySet, BSet, RSet, CSet,   \* exhaustive families
          Variant,    \* "ok"; anything else is a deliberately wrong model used as a negative control
          Emit        \* (MCLsqCtl*.cfg: TLC must refute the stated law, else the laws would be vacuous)

VARIABLES ph, sys
vars == <<ph, sys>>

(* ------------------------------ index-file layouts ----------------------------- *)
\* contiguous groups: cut after position i (1 <= i < n) iff cut[i]; a group lo..hi is written
\* "lo:hi", a single position "lo" or "lo:lo" (single[..])
RECURSIVE Groups(_, _, _, _)
Groups(n, cut, lo, i) == IF i > n THEN <<>>
                         ELSE IF i = n \/ cut[i] THEN <<<<lo, i>>>> \o Groups(n, cut, i + 1, i + 1)
                         ELSE Groups(n, cut, lo, i + 1)
ContiguousIdx(n, cut, short) ==
  LET g == Groups(n, cut, 1, 1)
  IN [e \in 1..Len(g) |-> [name |-> e,
                           blocks |-> IF g[e][1] = g[e][2] /\ short THEN <<<<g[e][1]>>>> ELSE <<g[e]>>]]
\* two interleaved interactions "1:2:last" and "2:2:last" (n >= 2)
LastOfParity(n, par) == IF (n % 2) = (par % 2) THEN n ELSE n - 1
InterleavedIdx(n) == << [name |-> 1, blocks |-> <<<<1, 2, LastOfParity(n, 1)>>>>],
                        [name |-> 2, blocks |-> <<<<2, 2, LastOfParity(n, 0)>>>>] >>
\* the outer positions as a two-block list "1,n", the inner ones "2:n-1" (n >= 3)
OuterInnerIdx(n) == << [name |-> 1, blocks |-> <<<<1>>, <<n>>>>],
                       [name |-> 2, blocks |-> <<<<2, n - 1>>>>] >>
\* grid: every table restarts at g0 + gs, g0 + 2 gs, ... (units of 1/16)
GridOf(idx, n, g0, gs) ==
  [i \in 1..n |-> LET ek == CHOOSE ek \in {<<e, k>> : e \in 1..Len(idx), k \in 1..n} :
                               /\ ek[2] <= Len(Denote(idx[ek[1]].blocks))
                               /\ Denote(idx[ek[1]].blocks)[ek[2]] = i
                  IN g0 + ek[2] * gs]

(* ------------------------------ building systems ------------------------------- *)
Matrix(R, k0, m, n, lo, hi) == [i \in 1..m |-> [j \in 1..n |-> Draw(R, k0 + (i - 1) * n + j, lo, hi)]]
Vector(R, k0, n, lo, hi)    == [i \in 1..n |-> Draw(R, k0 + i, lo, hi)]

TikRecord(tag, s, A, b, rn, rd, idx, grid) ==
  LET sol == CASE Variant = "ok"    -> TikSolve(A, b, rn, rd)
               [] Variant = "AAT"   -> Solve(ScalePlusDiag(rd, MatMul(A, Tr(A)), rn), TikRhs(A, b, rd))   \* A A^T
               [] Variant = "rhsA"  -> Solve(TikM(A, rn, rd), ScaleV(-rd, MatVec(A, b)))                  \* A b
               [] Variant = "sign"  -> Solve(TikM(A, rn, rd), NegV(TikRhs(A, b, rd)))
               [] OTHER             -> TikSolve(A, b, rn, rd)
  IN [k |-> tag, s |-> s, n |-> Cols(A), A |-> A, b |-> b, rn |-> rn, rd |-> rd,
      idx |-> idx, grid |-> grid, num |-> sol.num, den |-> sol.den,
      tables |-> Tables(idx, grid, sol.num), sym |-> IsSymmetric(A)]

BuildTik(s) ==
  LET R  == Stream(s)
      n0 == Draw(R, 1, 1, 4)
      n  == IF n0 = 1 /\ Draw(R, 2, 0, 3) # 0 THEN 1 + Draw(R, 2, 0, 3) ELSE n0         \* few 1x1 systems
      A  == Matrix(R, 10, n, n, -2, 2)
      b  == Vector(R, 30, n, -3, 3)
      r0 == Draw(R, 3, 0, 5)
      rn == IF r0 = 0 /\ Det(A) = 0 THEN 1 ELSE r0           \* r = 0 only for invertible A
      rd == IF n <= 3 /\ rn > 0 THEN <<1, 1, 2, 4>>[Draw(R, 4, 1, 4)] ELSE 1
      lay == Draw(R, 5, 0, 5)
      cut == [i \in 1..n |-> Draw(R, 40 + i, 0, 1) = 1]
      idx == IF lay = 4 /\ n >= 2 THEN InterleavedIdx(n)
             ELSE IF lay = 5 /\ n >= 3 THEN OuterInnerIdx(n)
             ELSE ContiguousIdx(n, cut, (lay % 2) = 0)
      grid == GridOf(idx, n, Draw(R, 6, 0, 3), Draw(R, 7, 1, 3))
  IN TikRecord("tik", s, A, b, rn, rd, idx, grid)

\* exponents of the row scaling D = diag(2^k) replayed into the real routine (powers of two: D C is exact in
\* floating point; 2^70 itself is far outside TLC's integers, so TLC checks the relation with small integer
\* multipliers (ConRowScale) and only SUPPLIES the exponents; the harness compares x(A, b, D C) with the same
\* rational as x(A, b, C) and evaluates C x = 0 against the UNSCALED C)
KExps == <<0, 20, -20, 40, -40, 70, -70>>
ConRecord(tag, s, A, b, C, kexp) ==
  LET sol == CASE Variant = "noC" -> [num |-> Solve(Gram(A), MatVec(Tr(A), b)).num, lam |-> ZeroV(Rows(C)),
                                      den |-> Det(Gram(A))]                                    \* constraint ignored
               [] Variant = "zero" -> [num |-> ZeroV(Cols(A)), lam |-> ZeroV(Rows(C)), den |-> 1]        \* feasible, not optimal
               [] OTHER           -> ConSolve(A, b, C)
  IN [k |-> tag, s |-> s, m |-> Rows(A), n |-> Cols(A), p |-> Rows(C), A |-> A, b |-> b, C |-> C,
      num |-> sol.num, lam |-> sol.lam, den |-> sol.den, zerocol |-> HasZeroColumn(A), kexp |-> kexp]

BuildCon(s) ==
  LET R == Stream(s)
      n == Draw(R, 1, 2, 4)
      p0 == IF n = 4 THEN Draw(R, 2, 0, 1) ELSE Draw(R, 2, 0, n - 1)      \* p = 0: no constraint, the plain least-squares
      p == IF p0 = 0 /\ Draw(R, 4, 0, 2) # 0 THEN 1 ELSE p0                   \* problem through the same routine (rarer)
      m == Draw(R, 3, n - p, 4)
      A == Matrix(R, 10, m, n, -2, 2)
      b == Vector(R, 30, m, -3, 3)
      C == Matrix(R, 40, p, n, -2, 2)
      kexp == [i \in 1..p |-> KExps[Draw(R, 50 + i, 1, 7)]]
  IN ConRecord("con", s, A, b, C, kexp)

(* call histories of the constrained routine: 2..4 problems of ONE shape (m, n, p) handed to the routine one after the
   other, the constraint matrix either REWRITTEN IN PLACE in the same object ("inplace": same address and shape, other
   entries - what four spline fits in a row or csg_fmatch's blocks do) or passed in a fresh object ("fresh").  The
   routine is a function: every call must return what the same call made alone returns (HistLaws: the stated
   properties hold for every call on its own data). *)
BuildHist(s) ==
  LET R0 == Stream(s)
      n  == Draw(R0, 1, 2, 3)
      p  == Draw(R0, 2, 1, n - 1)
      m  == Draw(R0, 3, n, 4)
      L  == Draw(R0, 4, 2, 4)
  IN [k |-> "hist", s |-> s, m |-> m, n |-> n, p |-> p,
      calls |-> [c \in 1..L |-> LET R == Stream(s * 8 + c)
                                 IN ConRecord("call", s * 8 + c, Matrix(R, 10, m, n, -2, 2), Vector(R, 30, m, -3, 3),
                                              Matrix(R, 40, p, n, -2, 2), [i \in 1..p |-> 0])],
      mode  |-> [c \in 1..L |-> IF c = 1 \/ Draw(R0, 5 + c, 0, 2) = 0 THEN "fresh" ELSE "inplace"]]

(* ------------------------------ graded spectra (Tikhonov clause) ------------------ *)
(* A = U diag(sigma) V with rational orthogonal U = N1/d1, V = N2/d2 (integer matrices with orthogonal rows of squared
   length d^2), sigma_i = 2^(-e_i) or 0 (e_i up to 27: singular values down to 7e-9, exact null directions), r = 2^(-t),
   t in -10..34 (r from 1e3 down to 6e-11).  Then  A^T A = V^T diag(sigma^2) V  and the solution of the stated normal
   equations is
        x = - V^T diag(c) U^T b ,    c_i = sigma_i / (sigma_i^2 + r) = 2^P / (1 + 2^(-Q)),  Q = |t - 2e| >= 0,
                                     P = e  if t >= 2e  (r <= sigma^2),   P = t - e  otherwise.
   Numbers like 2^(-54) are outside TLC's integers, so matrix entries and solution components are emitted as TERM LISTS
   (sums of n/d * 2^(-e)  resp.  n/d * 2^P/(1+2^(-Q))), which the harness converts to doubles.  TLC checks: the N are
   orthogonal (GrOrtho); the exponent identities that make (sigma^2 + r) c = sigma (GrExponents); and on the
   sub-family where all integers fit (n = 2, e <= 1, 0 <= t <= 2) the term-list solution satisfies the stated normal
   equations exactly, cross-multiplied (GrNormalEq). *)
Ortho2 == << <<<<3, 4>>, <<-4, 3>>>>, <<<<4, -3>>, <<3, 4>>>>, <<<<-3, 4>>, <<4, 3>>>> >>                      \* d = 5
Ortho3 == << <<<<2, -1, 2>>, <<2, 2, -1>>, <<-1, 2, 2>>>>, <<<<1, 2, 2>>, <<2, 1, -2>>, <<2, -2, 1>>>>,
             <<<<2, 2, -1>>, <<-1, 2, 2>>, <<2, -1, 2>>>> >>                                                   \* d = 3
Ortho4 == << <<<<1, 1, 1, 1>>, <<1, -1, 1, -1>>, <<1, 1, -1, -1>>, <<1, -1, -1, 1>>>>,
             <<<<1, 1, 1, -1>>, <<1, 1, -1, 1>>, <<1, -1, 1, 1>>, <<-1, 1, 1, 1>>>>,
             <<<<1, -1, -1, -1>>, <<1, 1, 1, -1>>, <<1, -1, 1, 1>>, <<1, 1, -1, 1>>>> >>                       \* d = 2
OrthoOf(n) == IF n = 2 THEN Ortho2 ELSE IF n = 3 THEN Ortho3 ELSE Ortho4
OrthoDen(n) == IF n = 2 THEN 5 ELSE IF n = 3 THEN 3 ELSE 2
GrExps == <<0, 1, 3, 6, 13, 20, 27>>
NoSigma == -1                                         \* sigma = 0
CoefP(e, t) == IF t >= 2 * e THEN e ELSE t - e
CoefQ(e, t) == IF t >= 2 * e THEN t - 2 * e ELSE 2 * e - t
Max2(a, b) == IF a > b THEN a ELSE b
Min2(a, b) == IF a < b THEN a ELSE b
GrRecord(tag, s, n, N1, N2, e, t, b, idx, grid) ==
  LET d  == OrthoDen(n)
      w  == [i \in 1..n |-> SumSeq([k \in 1..n |-> N1[k][i] * b[k]])]               \* d1 (U^T b)_i
      live == {i \in 1..n : e[i] # NoSigma}
      liveSeq == SortedSeq(live)
      emin == IF live = {} THEN 0 ELSE CHOOSE a \in {e[i] : i \in live} : \A i \in live : a <= e[i]
      emax == IF live = {} THEN 0 ELSE CHOOSE a \in {e[i] : i \in live} : \A i \in live : a >= e[i]
      lo2  == IF Cardinality(live) = n THEN Max2(-2 * emax, -t) ELSE -t              \* log2 of the smallest eigenvalue + r
  IN [k |-> tag, s |-> s, n |-> n, N1 |-> N1, N2 |-> N2, d |-> d, e |-> e, t |-> t, b |-> b, idx |-> idx, grid |-> grid,
      \* A[k][l] = sum_i N1[k][i] N2[i][l] / d^2 * 2^(-e_i)
      Aterms |-> [k \in 1..n |-> [l \in 1..n |-> [q \in 1..Len(liveSeq) |->
                     [n |-> N1[k][liveSeq[q]] * N2[liveSeq[q]][l], d |-> d * d, e |-> e[liveSeq[q]]]]]],
      \* x[j] = sum_i (- N2[i][j] w_i) / d^2 * 2^P / (1 + 2^(-Q))
      xterms |-> [j \in 1..n |-> [q \in 1..Len(liveSeq) |->
                     [n |-> -N2[liveSeq[q]][j] * w[liveSeq[q]], d |-> d * d,
                      p |-> CoefP(e[liveSeq[q]], t) + (IF Variant = "grP" THEN 1 ELSE 0),     \* negative control
                      q |-> CoefQ(e[liveSeq[q]], t)]]],
      tables |-> [en \in 1..Len(idx) |-> [name |-> idx[en].name, rows |-> LET q == Denote(idx[en].blocks)
                                                                         IN [m \in 1..Len(q) |-> <<grid[q[m]], q[m]>>]]],
      condlog2 |-> Max2(-2 * emin, -t) - lo2]
BuildGr(s) ==
  LET R  == Stream(s)
      n  == Draw(R, 1, 2, 4)
      N1 == OrthoOf(n)[Draw(R, 2, 1, 3)]
      N2 == OrthoOf(n)[Draw(R, 3, 1, 3)]
      e  == [i \in 1..n |-> IF i = 1 THEN 0                                             \* largest singular value 1
                            ELSE IF Draw(R, 20 + i, 0, 7) = 0 THEN NoSigma ELSE GrExps[Draw(R, 10 + i, 1, 7)]]
      t  == Draw(R, 4, -10, 34)
      b  == Vector(R, 30, n, -3, 3)
      cut == [i \in 1..n |-> Draw(R, 40 + i, 0, 1) = 1]
      idx == IF Draw(R, 5, 0, 3) = 0 /\ n >= 2 THEN InterleavedIdx(n) ELSE ContiguousIdx(n, cut, TRUE)
  IN GrRecord("gr", s, n, N1, N2, e, t, b, idx, GridOf(idx, n, Draw(R, 6, 0, 3), Draw(R, 7, 1, 3)))

Mat2(a) == <<<<a[1], a[2]>>, <<a[3], a[4]>>>>

Init == /\ ph = 0
        /\ \/ /\ "tik" \in Kinds
              /\ \E s \in Seed0..(Seed0 + NSeeds - 1) : sys = [k |-> "tik", s |-> s]
           \/ /\ "con" \in Kinds
              /\ \E s \in Seed0..(Seed0 + NSeeds - 1) : sys = [k |-> "con", s |-> s]
           \/ /\ "gr" \in Kinds
              /\ \E s \in Seed0..(Seed0 + NSeeds - 1) : sys = [k |-> "gr", s |-> s]
           \/ /\ "grx" \in Kinds           \* the sub-family small enough for the exact normal equations
              /\ \E i1, i2 \in 1..3, e1, e2 \in {0, 1}, t \in 0..2, b1, b2 \in {-3, 1, 2} :
                    sys = [k |-> "grx", N1 |-> Ortho2[i1], N2 |-> Ortho2[i2], e |-> <<e1, e2>>, t |-> t, b |-> <<b1, b2>>]
           \/ /\ "hist" \in Kinds
              /\ \E s \in Seed0..(Seed0 + NSeeds - 1) : sys = [k |-> "hist", s |-> s]
           \/ /\ "xt" \in Kinds
              /\ \E a \in [1..4 -> EntrySet], b \in BSet, r \in RSet :
                    sys = [k |-> "xt", A |-> Mat2(a), b |-> b, r |-> r]
           \/ /\ "xc" \in Kinds
              /\ \E a \in [1..4 -> EntrySet], b \in BSet, c \in [1..2 -> CSet] :
                    sys = [k |-> "xc", A |-> Mat2(a), b |-> b, C |-> <<c>>]

Build(q) == CASE q.k = "tik" -> BuildTik(q.s)
              [] q.k = "con" -> BuildCon(q.s)
              [] q.k = "hist" -> BuildHist(q.s)
              [] q.k = "gr"  -> BuildGr(q.s)
              [] q.k = "grx" -> GrRecord("grx", 0, 2, q.N1, q.N2, q.e, q.t, q.b, ContiguousIdx(2, <<FALSE, FALSE>>, TRUE),
                                         <<1, 2>>)
              [] q.k = "xt"  -> LET idx == ContiguousIdx(2, [i \in 1..2 |-> ((q.A[1][2] + q.r) % 2) = 0], (q.A[1][1] % 2) = 0)
                                IN TikRecord("xt", 0, q.A, q.b, q.r, 1, idx, GridOf(idx, 2, 0, 1))
              [] q.k = "xc"  -> ConRecord("xc", 0, q.A, q.b, q.C,
                                           <<KExps[1 + ((q.A[1][1] + 2 * q.A[2][2] + 3 * q.C[1][1] + 14) % 7)]>>)

Next == ph = 0 /\ ph' = 1 /\ sys' = Build(sys)
Spec == Init /\ [][Next]_vars

IsTik == ph = 1 /\ sys.k \in {"tik", "xt"}
IsCon == ph = 1 /\ sys.k \in {"con", "xc"}
Sol   == [num |-> sys.num, den |-> sys.den]
WellPosedCon == IsCon /\ sys.den # 0

(* ------------------------------ laws: Tikhonov --------------------------------- *)
\* r > 0: A^T A + r I is positive definite, in particular regular; r = 0 is only generated for regular A
TikWellPosed == IsTik => /\ sys.den # 0
                         /\ sys.rn > 0 => sys.den > 0
                         /\ sys.rn >= 0 /\ sys.rd > 0
TikNormalEq  == IsTik => NormalEq(sys.A, sys.b, sys.rn, sys.rd, Sol)
\* Cramer's rule really solved the system it was given (model-internal cross-check)
TikCramer    == IsTik => Solves(TikM(sys.A, sys.rn, sys.rd), TikRhs(sys.A, sys.b, sys.rd), Sol)
TikGramSym   == IsTik => IsSymmetric(TikM(sys.A, sys.rn, sys.rd))
\* the normal equations characterise the minimiser of |A x + b|^2 + r |x|^2 (evaluated where the
\* cross-multiplied objective stays far below 2^31)
TikSmall     == IsTik /\ sys.n <= 2 /\ sys.rd = 1 /\ sys.rn > 0
                      /\ MaxAbsV(sys.num) <= 400 /\ AbsI(sys.den) <= 400
TikMin       == TikSmall => TikMinimiser(sys.A, sys.b, sys.rn, sys.rd, Sol)
\* splitting
SplitPartition   == IsTik => IsPartition(sys.idx, sys.n)
SplitReassembles == IsTik => Reassembles(sys.idx, sys.grid, sys.num, sys.tables)
SplitNames       == IsTik => \A e, f \in 1..Len(sys.idx) : e # f => sys.idx[e].name # sys.idx[f].name

(* ------------------------------ laws: constrained ------------------------------ *)
Grad == ResGrad(sys.A, sys.b, Sol)
ConKKT        == WellPosedCon => Solves(KKT(sys.A, sys.C), KKTRhs(sys.A, sys.b, sys.C),
                                        [num |-> sys.num \o sys.lam, den |-> sys.den])
ConFullRank   == WellPosedCon => FullRowRank(sys.C)
ConExact      == WellPosedCon => ConstraintExact(sys.C, Sol)
ConGradRow    == WellPosedCon => GradInRowSpace(sys.C, Grad)
ConGradNull   == WellPosedCon => GradOrthNullLattice(sys.C, Grad, 2)
\* g = - C^T lambda (what the multipliers mean)
ConMultiplier == (WellPosedCon /\ sys.p > 0) => Grad = NegV(MatVec(Tr(sys.C), sys.lam))
ConSmall      == WellPosedCon /\ MaxAbsV(sys.num) <= 400 /\ AbsI(sys.den) <= 400
ConMin        == ConSmall => ConMinimiser(sys.A, sys.b, sys.C, Sol)
\* row scaling does not change the constrained minimiser (small integer multipliers, one negative)
Multipliers(p) == IF p = 1 THEN {<<2>>, <<-3>>} ELSE {<<2, 1>>, <<1, -3>>, <<2, -3>>}
ConRowScale   == ConSmall => \A d \in Multipliers(sys.p) : RowScaleInvariant(sys.A, sys.b, sys.C, d)
ConKExp       == IsCon => Len(sys.kexp) = sys.p /\ \A i \in 1..sys.p : \E j \in 1..7 : sys.kexp[i] = KExps[j]

(* ------------------------------ export ------------------------------------------ *)
(* ------------------------------ laws: graded spectra ----------------------------- *)
IsGr == ph = 1 /\ sys.k \in {"gr", "grx"}
RECURSIVE Pow2(_)
Pow2(k) == IF k = 0 THEN 1 ELSE 2 * Pow2(k - 1)
GrOrtho == IsGr => /\ MatMul(sys.N1, Tr(sys.N1)) = ScalePlusDiag(0, sys.N1, sys.d * sys.d)
                   /\ MatMul(sys.N2, Tr(sys.N2)) = ScalePlusDiag(0, sys.N2, sys.d * sys.d)
\* (sigma^2 + r) c = sigma in exponents:  sigma^2 + r = 2^(-m) (1 + 2^(-Q)) with m = min(2e, t);  c = 2^P/(1+2^(-Q))  =>  P - m = -e
GrExponents == IsGr => \A j \in 1..sys.n : \A q \in 1..Len(sys.xterms[j]) :
                 LET tm == sys.xterms[j][q]
                     ee == sys.Aterms[1][1][q].e
                 IN /\ tm.q >= 0 /\ tm.q = (IF sys.t >= 2 * ee THEN sys.t - 2 * ee ELSE 2 * ee - sys.t)
                    /\ tm.p - Min2(2 * ee, sys.t) = -ee
\* exact check where the integers fit: with S = d^2 2, Aint = S A (integers), X_j = D x_j (integers, D = d^2 prod_i (2^Q_i + 1)):
\*    2^t Aint^T Aint X + S^2 X = - 2^t S D Aint^T b
GrAint == [k \in 1..2 |-> [l \in 1..2 |-> SumSeq([q \in 1..Len(sys.Aterms[k][l]) |->
                sys.Aterms[k][l][q].n * Pow2(1 - sys.Aterms[k][l][q].e)])]]
GrD == sys.d * sys.d * (Pow2(sys.xterms[1][1].q) + 1) * (Pow2(sys.xterms[1][2].q) + 1)
GrX == [j \in 1..2 |-> SumSeq([q \in 1..2 |-> LET tm == sys.xterms[j][q]
                                             IN tm.n * Pow2(tm.p + tm.q) * (Pow2(sys.xterms[j][3 - q].q) + 1)])]
GrNormalEq == (ph = 1 /\ sys.k = "grx") =>
   LET S == sys.d * sys.d * 2
   IN AddV(ScaleV(Pow2(sys.t), MatVec(Tr(GrAint), MatVec(GrAint, GrX))), ScaleV(S * S, GrX))
        = ScaleV(-Pow2(sys.t) * S * GrD, MatVec(Tr(GrAint), sys.b))
GrSplit == IsGr => IsPartition(sys.idx, sys.n)

(* ------------------------------ laws: call histories ---------------------------- *)
IsHist == ph = 1 /\ sys.k = "hist"
HistWellPosed == IsHist /\ \A c \in 1..Len(sys.calls) : sys.calls[c].den # 0
CallSol(c) == [num |-> sys.calls[c].num, den |-> sys.calls[c].den]
HistLaws == HistWellPosed => \A c \in 1..Len(sys.calls) :
              LET q == sys.calls[c]
              IN /\ Solves(KKT(q.A, q.C), KKTRhs(q.A, q.b, q.C), [num |-> q.num \o q.lam, den |-> q.den])
                 /\ ConstraintExact(q.C, CallSol(c))
                 /\ GradInRowSpace(q.C, ResGrad(q.A, q.b, CallSol(c)))
                 /\ Rows(q.A) = sys.m /\ Cols(q.A) = sys.n /\ Rows(q.C) = sys.p        \* one shape per history
HistModes == IsHist => sys.mode[1] = "fresh" /\ Len(sys.mode) = Len(sys.calls)

EmitRec == (Emit /\ ph = 1 /\ (IsTik \/ WellPosedCon \/ HistWellPosed \/ (IsGr /\ sys.k = "gr"))) => PrintT(ToJson(sys))
=============================================================================
