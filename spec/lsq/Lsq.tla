-------------------------------- MODULE Lsq --------------------------------
(* C06 (partial): the two linear-algebra clauses of "inverse solvers return the true
   minimiser of the stated least-squares problem".

   Exact rational linear algebra on small integer matrices.  A matrix is a sequence of
   rows, a vector a sequence of integers.  A rational vector is written as integer
   numerators over ONE common denominator:  x = num / den.

   Tikhonov clause (csg_imc_solve):   (A^T A + r I) x = - A^T b,   r = rn/rd > 0
        M   == rd A^T A + rn I        rhs == - rd A^T b
        x   == adj(M) rhs / det(M)                      (TikSolve)
        stated property  NormalEq :  M num = den rhs    (integers, cross-multiplied)
        i.e. the specification IS the normal equations; Cramer's rule (adjugate and
        determinant by cofactor expansion) is only how the model solves them.
   Splitting clause: an index file is a sequence of entries `name blocks`; blocks is a
        range expression "a:s:b,c:d,e" in the denotation of tools::RangeParser
        (arithmetic progressions, concatenated; spec/rangeglob/Range.tla, C18), with
        1-based positions as imcio_write_index writes them.  Entry e gives the table
        name.dpot.imc with the rows  grid[i] x[i]  for i in Denote(blocks), in that order.
   Constrained clause (tools::linalg_constrained_qrsolve): minimise |A x - b|^2 subject
        to C x = 0, C of full row rank:  KKT system
              [ A^T A  C^T ] [ x ]   [ A^T b ]
              [ C      0   ] [ l ] = [ 0     ]
        stated properties:  C x = 0 exactly,  A^T (A x - b)  orthogonal to null(C)
        (equivalently: in the row space of C, i.e. every (p+1)-minor of [C; g] vanishes).
        Relation family (row scaling): x(A, b, diag(d) C) = x(A, b, C) for every non-zero d.

   This module has no variables; LsqCheck.tla turns it into a model.                *)
EXTENDS Integers, Sequences, FiniteSets, TLC

(* ----------------------------- vectors, matrices ------------------------------ *)
Rows(M) == Len(M)
Cols(M) == IF Len(M) = 0 THEN 0 ELSE Len(M[1])

RECURSIVE SumTo(_, _)
SumTo(f, n) == IF n = 0 THEN 0 ELSE f[n] + SumTo(f, n - 1)
SumSeq(f)   == SumTo(f, Len(f))

Dot(u, v)     == SumSeq([k \in 1..Len(u) |-> u[k] * v[k]])
Tr(M)         == [j \in 1..Cols(M) |-> [i \in 1..Rows(M) |-> M[i][j]]]
MatVec(M, v)  == [i \in 1..Rows(M) |-> Dot(M[i], v)]
MatMul(M, N)  == LET Nt == Tr(N) IN [i \in 1..Rows(M) |-> [j \in 1..Len(Nt) |-> Dot(M[i], Nt[j])]]
ScaleV(c, v)  == [k \in 1..Len(v) |-> c * v[k]]
AddV(u, v)    == [k \in 1..Len(u) |-> u[k] + v[k]]
SubV(u, v)    == [k \in 1..Len(u) |-> u[k] - v[k]]
NegV(v)       == ScaleV(-1, v)
ZeroV(n)      == [k \in 1..n |-> 0]
Norm2(v)      == Dot(v, v)
\* c M + d I
ScalePlusDiag(c, M, d) == [i \in 1..Rows(M) |-> [j \in 1..Cols(M) |-> c * M[i][j] + (IF i = j THEN d ELSE 0)]]
Gram(A)       == MatMul(Tr(A), A)                          \* A^T A
IsSymmetric(M) == Rows(M) = Cols(M) /\ \A i, j \in 1..Rows(M) : M[i][j] = M[j][i]
AbsI(x)       == IF x < 0 THEN -x ELSE x
MaxAbsV(v)    == IF Len(v) = 0 THEN 0
                 ELSE CHOOSE a \in {AbsI(v[k]) : k \in 1..Len(v)} : \A k \in 1..Len(v) : AbsI(v[k]) <= a

(* --------------------- determinant, adjugate, Cramer's rule -------------------- *)
Sign(k) == IF k % 2 = 0 THEN 1 ELSE -1
\* M without row i and column j
Minor(M, i, j) == [r \in 1..(Len(M) - 1) |->
                     [c \in 1..(Len(M) - 1) |-> M[IF r < i THEN r ELSE r + 1][IF c < j THEN c ELSE c + 1]]]
RECURSIVE Det(_)
Det(M) == IF Len(M) = 0 THEN 1
          ELSE IF Len(M) = 1 THEN M[1][1]
          ELSE IF Len(M) = 2 THEN M[1][1] * M[2][2] - M[1][2] * M[2][1]
          ELSE SumSeq([j \in 1..Len(M) |->
                         IF M[1][j] = 0 THEN 0 ELSE Sign(1 + j) * M[1][j] * Det(Minor(M, 1, j))])
Adj(M) == [i \in 1..Len(M) |-> [j \in 1..Len(M) |-> Sign(i + j) * Det(Minor(M, j, i))]]

\* solution of M x = rhs for det(M) # 0 as numerators over the common denominator det(M)
Solve(M, rhs) == [num |-> MatVec(Adj(M), rhs), den |-> Det(M)]
\* "num/den solves M x = rhs", cross-multiplied
Solves(M, rhs, sol) == sol.den # 0 /\ MatVec(M, sol.num) = ScaleV(sol.den, rhs)

(* ------------------------------ Tikhonov clause -------------------------------- *)
TikM(A, rn, rd)     == ScalePlusDiag(rd, Gram(A), rn)
TikRhs(A, b, rd)    == ScaleV(-rd, MatVec(Tr(A), b))
TikSolve(A, b, rn, rd) == Solve(TikM(A, rn, rd), TikRhs(A, b, rd))

\* the statement:  (A^T A + (rn/rd) I) (num/den) = - A^T b
NormalEq(A, b, rn, rd, sol) ==
  /\ sol.den # 0
  /\ LET x == sol.num  d == sol.den
         lhs == AddV(ScaleV(rd, MatVec(Tr(A), MatVec(A, x))), ScaleV(rn, x))   \* rd A^T (A x) + rn x
     IN  lhs = ScaleV(-rd * d, MatVec(Tr(A), b))

\* the least-squares problem behind it:  J(x) = |A x + b|^2 + r |x|^2 ; scaled by rd den^2,
\* evaluated at the rational point p/den
TikJ(A, b, rn, rd, p, den) == rd * Norm2(AddV(MatVec(A, p), ScaleV(den, b))) + rn * Norm2(p)
\* x is the strict minimiser among all lattice neighbours x + z, z in {-1,0,1}^n \ {0}
TikMinimiser(A, b, rn, rd, sol) ==
  LET n == Cols(A)
      J0 == TikJ(A, b, rn, rd, sol.num, sol.den)
  IN \A z \in [1..n -> {-1, 0, 1}] :
        (\E k \in 1..n : z[k] # 0) =>
            TikJ(A, b, rn, rd, AddV(sol.num, ScaleV(sol.den, z)), sol.den) > J0

(* ------------------------------ splitting clause ------------------------------- *)
\* a block <<b>>, <<b,e>> or <<b,s,e>> (positive stride), as in Range.tla (C18)
Beg(bl) == bl[1]
Str(bl) == IF Len(bl) = 3 THEN bl[2] ELSE 1
End(bl) == bl[Len(bl)]
DenoteBlock(bl) == IF Str(bl) <= 0 \/ Beg(bl) > End(bl) THEN <<>>
                   ELSE [k \in 1..((End(bl) - Beg(bl)) \div Str(bl) + 1) |-> Beg(bl) + (k - 1) * Str(bl)]
RECURSIVE DenoteFrom(_, _)
DenoteFrom(e, i) == IF i > Len(e) THEN <<>> ELSE DenoteBlock(e[i]) \o DenoteFrom(e, i + 1)
Denote(e) == DenoteFrom(e, 1)

\* rows <<grid, numerator>> of the table of one index entry
TableOf(entry, grid, num) == LET q == Denote(entry.blocks)
                             IN [k \in 1..Len(q) |-> <<grid[q[k]], num[q[k]]>>]
Tables(idx, grid, num) == [e \in 1..Len(idx) |-> [name |-> idx[e].name, rows |-> TableOf(idx[e], grid, num)]]

\* every position 1..n is named by exactly one (entry, row)
IsPartition(idx, n) ==
  /\ \A e \in 1..Len(idx) : \A k \in 1..Len(Denote(idx[e].blocks)) : Denote(idx[e].blocks)[k] \in 1..n
  /\ \A i \in 1..n : Cardinality({ek \in {<<e, k>> : e \in 1..Len(idx), k \in 1..n} :
                                     /\ ek[2] <= Len(Denote(idx[ek[1]].blocks))
                                     /\ Denote(idx[ek[1]].blocks)[ek[2]] = i}) = 1
\* scattering the table rows back gives the solution on its grid
Reassembles(idx, grid, num, tabs) ==
  \A e \in 1..Len(idx) : LET q == Denote(idx[e].blocks)
                         IN /\ Len(tabs[e].rows) = Len(q)
                            /\ \A k \in 1..Len(q) : tabs[e].rows[k] = <<grid[q[k]], num[q[k]]>>

(* ------------------------------ constrained clause ----------------------------- *)
\* [[A^T A, C^T], [C, 0]]
KKT(A, C) == LET n == Cols(A)  p == Rows(C)  G == Gram(A)
             IN [i \in 1..(n + p) |-> [j \in 1..(n + p) |->
                   IF i <= n /\ j <= n THEN G[i][j]
                   ELSE IF i <= n THEN C[j - n][i]
                   ELSE IF j <= n THEN C[i - n][j]
                   ELSE 0]]
KKTRhs(A, b, C) == MatVec(Tr(A), b) \o ZeroV(Rows(C))
ConSolve(A, b, C) == LET s == Solve(KKT(A, C), KKTRhs(A, b, C))  n == Cols(A)
                     IN [num |-> SubSeq(s.num, 1, n), lam |-> SubSeq(s.num, n + 1, n + Rows(C)), den |-> s.den]

\* gradient of |A x - b|^2 / 2 at num/den, times den
ResGrad(A, b, sol) == MatVec(Tr(A), SubV(MatVec(A, sol.num), ScaleV(sol.den, b)))

\* stated property 1
ConstraintExact(C, sol) == MatVec(C, sol.num) = ZeroV(Rows(C))

\* ascending sequence of the elements of a set of integers
RECURSIVE SortedSeq(_)
SortedSeq(S) == IF S = {} THEN <<>>
                ELSE LET m == CHOOSE a \in S : \A c \in S : a <= c IN <<m>> \o SortedSeq(S \ {m})
\* all k x k minors built from the first k rows ... : sub-matrix of rows R, columns in set S
SubCols(M, S) == LET cs == SortedSeq(S) IN [i \in 1..Len(M) |-> [j \in 1..Len(cs) |-> M[i][cs[j]]]]
\* rank(M) < Rows(M): every maximal minor vanishes
RowsDependent(M) == \A S \in SUBSET (1..Cols(M)) : Cardinality(S) = Rows(M) => Det(SubCols(M, S)) = 0
FullRowRank(C)   == Rows(C) <= Cols(C) /\ ~RowsDependent(C)

\* stated property 2:  g orthogonal to null(C)  <=>  g in rowspace(C)  <=>  rank [C; g] = rank C = p
GradInRowSpace(C, g) == Rows(C) + 1 > Len(g) \/ RowsDependent(Append(C, g))     \* no constraint row: g = 0
\* the same, read literally on lattice vectors of the null space
GradOrthNullLattice(C, g, B) ==
  \A z \in [1..Len(g) -> (-B)..B] : MatVec(C, z) = ZeroV(Rows(C)) => Dot(z, g) = 0

\* minimiser among feasible lattice neighbours x + z, C z = 0, z in {-1,0,1}^n
ConJ(A, b, p, den) == Norm2(SubV(MatVec(A, p), ScaleV(den, b)))
ConMinimiser(A, b, C, sol) ==
  LET J0 == ConJ(A, b, sol.num, sol.den)
  IN \A z \in [1..Cols(A) -> {-1, 0, 1}] :
        (MatVec(C, z) = ZeroV(Rows(C)) /\ \E k \in 1..Cols(A) : z[k] # 0) =>
            ConJ(A, b, AddV(sol.num, ScaleV(sol.den, z)), sol.den) > J0

\* Row scaling: multiplying constraint row i by a non-zero scalar d[i] changes neither {x : C x = 0} nor the objective,
\* hence not the constrained minimiser:  x(A, b, diag(d) C) = x(A, b, C)   (equality of rationals, cross-multiplied)
ScaleRows(C, d) == [i \in 1..Rows(C) |-> ScaleV(d[i], C[i])]
SameRational(s1, s2) == /\ s1.den # 0 /\ s2.den # 0
                        /\ ScaleV(s2.den, s1.num) = ScaleV(s1.den, s2.num)
RowScaleInvariant(A, b, C, d) == LET s1 == ConSolve(A, b, C)  s2 == ConSolve(A, b, ScaleRows(C, d))
                                 IN SameRational([num |-> s1.num, den |-> s1.den], [num |-> s2.num, den |-> s2.den])

HasZeroColumn(A) == \E j \in 1..Cols(A) : \A i \in 1..Rows(A) : A[i][j] = 0
=============================================================================
