SPECIFICATION Spec
CONSTANTS
  Kinds = {"gr", "grx"}
  Seed0 <- MCSeed0
  NSeeds <- MCNSeeds
  EntrySet <- MCEntries
  BSet <- MCBSet
  RSet <- MCRSet
  CSet <- MCCEntries
  Variant = "ok"
  Emit = TRUE
INVARIANTS
  GrOrtho GrExponents GrNormalEq GrSplit EmitRec
CHECK_DEADLOCK FALSE
