------------------------------- MODULE MCLsq -------------------------------
(* TLC wrapper: constants with negative numbers, seeds from the environment. *)
EXTENDS LsqCheck, IOUtils
EnvInt(name, dflt) == IF name \in DOMAIN IOEnv THEN atoi(IOEnv[name]) ELSE dflt
MCSeed0   == EnvInt("C06_SEED0", 1)
MCNSeeds  == EnvInt("C06_NSEEDS", 50)
MCWide    == EnvInt("C06_WIDE", 0)
MCEntries == IF MCWide = 1 THEN -2..2 ELSE {-2, -1, 1, 2}
MCCEntries == -2..2
\* right-hand sides of the exhaustive families
MCBSet    == IF MCWide = 1 THEN {<<1, 0>>, <<1, -2>>, <<-3, 2>>} ELSE {<<1, -2>>}
MCRSet    == IF MCWide = 1 THEN {1, 2, 5} ELSE {1, 3}
=============================================================================
