SPECIFICATION Spec
CONSTANTS
  Kinds = {"xc"}
  Seed0 <- MCSeed0
  NSeeds <- MCNSeeds
  EntrySet <- MCEntries
  BSet <- MCBSet
  RSet <- MCRSet
  CSet <- MCCEntries
  Variant = "ok"
  Emit = TRUE
INVARIANTS
  ConKKT ConFullRank ConExact ConGradRow ConGradNull ConMultiplier ConMin ConRowScale ConKExp EmitRec
CHECK_DEADLOCK FALSE
