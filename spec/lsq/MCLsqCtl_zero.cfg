SPECIFICATION Spec
CONSTANTS
  Kinds = {"xc"}
  Seed0 <- MCSeed0
  NSeeds <- MCNSeeds
  EntrySet <- MCEntries
  BSet <- MCBSet
  RSet <- MCRSet
  CSet <- MCCEntries
  Variant = "zero"
  Emit = FALSE
INVARIANTS
  ConGradRow
CHECK_DEADLOCK FALSE
