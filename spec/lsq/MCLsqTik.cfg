SPECIFICATION Spec
CONSTANTS
  Kinds = {"tik"}
  Seed0 <- MCSeed0
  NSeeds <- MCNSeeds
  EntrySet <- MCEntries
  BSet <- MCBSet
  RSet <- MCRSet
  CSet <- MCCEntries
  Variant = "ok"
  Emit = TRUE
INVARIANTS
  TikWellPosed TikNormalEq TikCramer TikGramSym TikMin SplitPartition SplitReassembles SplitNames EmitRec
CHECK_DEADLOCK FALSE
